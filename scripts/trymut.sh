#!/bin/bash
# usage: trymut.sh <repo-relative file> <sed expr> <govc fn substring>
# applies the sed expression to a scratch copy of /repo and runs govc fn there; prints undischarged obligations
set -u
scratch=$(mktemp -d /tmp/govc-mut.XXXXXX)
rsync -a --exclude .git /repo/ "$scratch/"
sed -i "$2" "$scratch/$1"
if diff -q "/repo/$1" "$scratch/$1" >/dev/null; then echo "sed expression changed nothing"; rm -rf "$scratch"; exit 2; fi
diff "/repo/$1" "$scratch/$1" | head -6
(cd "$scratch" && GOFLAGS=-mod=mod GOPROXY=off go build ./$(dirname $1)/ 2>&1 | head -5)
GOVC_REPO="$scratch" /verif/bin/govc fn "$3" 2>&1 | grep -v "^   proved" | cut -c1-200
rm -rf "$scratch"
