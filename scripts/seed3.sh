#!/bin/bash
# usage: seed3.sh <property>   confirms and checks the round-3 seeded changes /tmp/seedout3-<property>/{1,2,3} as <property>-7..9
p=$1
extra=""
[ $p = C03 ] && extra="C17"
[ $p = C17 ] && extra="C03"
[ $p = C19 ] && extra="C18"
for k in 1 2 3; do
  d=/tmp/seedout3-$p/$k
  [ -f $d/patch.diff ] || { echo "$p-$((k+6)) missing"; continue; }
  /verif/scripts/seedcheck.sh $d $p-$((k+6)) $p $extra 2>&1 | tail -1 | sed "s/^/$p-$((k+6)) /"
done
