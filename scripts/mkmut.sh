#!/bin/bash
# usage: mkmut.sh <property> <name> <repo-relative file> <sed expr> <expected obligation substring>
# builds a must-fail mutant (patch + .expect) from a sed expression over the current /repo file, after checking that
# the mutant still compiles.
set -u
p=$1; name=$2; f=$3; expr=$4; want=$5
scratch=$(mktemp -d /tmp/govc-mkmut.XXXXXX)
mkdir -p "$scratch/a/$(dirname $f)" "$scratch/b/$(dirname $f)"
cp "/repo/$f" "$scratch/a/$f"; cp "/repo/$f" "$scratch/b/$f"
sed -i "$expr" "$scratch/b/$f"
if diff -q "$scratch/a/$f" "$scratch/b/$f" >/dev/null; then echo "sed expression changed nothing"; rm -rf "$scratch"; exit 2; fi
mkdir -p "/verif/selftest/mutants/$p"
(cd "$scratch" && diff -u "a/$f" "b/$f" > "/verif/selftest/mutants/$p/$name.patch")
echo "$want" > "/verif/selftest/mutants/$p/$name.expect"
work=$(mktemp -d /tmp/govc-mkmut-w.XXXXXX); rsync -a --exclude .git /repo/ "$work/"; cp "$scratch/b/$f" "$work/$f"
(cd "$work" && GOFLAGS=-mod=mod GOPROXY=off GOSUMDB=off GOTOOLCHAIN=local go build ./$(dirname $f)/ 2>&1 | head -5)
rm -rf "$scratch" "$work"
grep '^[-+][^-+]' "/verif/selftest/mutants/$p/$name.patch" | head -6
