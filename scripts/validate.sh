#!/bin/bash
# validates MANIFEST.json and every evidence file against the schemas
python3-vt - <<'PY'
import json,jsonschema,glob
jsonschema.validate(json.load(open('/verif/MANIFEST.json')), json.load(open('/root/.vp/MANIFEST.schema.json'))); print('manifest valid')
for f in sorted(glob.glob('/verif/evidence/*.json')):
    jsonschema.validate(json.load(open(f)), json.load(open('/root/.vp/EVIDENCE.schema.json'))); print(f,'valid')
PY

/verif/bin/govc names --check 2>&1 | tail -1
