#!/bin/bash
# usage: reseed.sh <seed-id> ...   re-runs scripts/seedcheck.sh for stored seeded changes (/verif/seeded/<id>/)
cd /verif
for id in "$@"; do
  d=/verif/seeded/$id
  [ -f $d/patch.diff ] || { echo "$id missing"; continue; }
  t=$(mktemp -d /tmp/reseed.XXXXXX)
  cp $d/patch.diff $d/meta.json $t/; cp $d/demo_test.go.txt $t/demo_test.go
  p=${id%-*}
  extra=""
  [ $p = C03 ] && extra="C17"
  [ $p = C17 ] && extra="C03"
  scripts/seedcheck.sh $t $id $p $extra 2>&1 | tail -1 | sed "s/^/$id /"
  rm -rf $t
done
