#!/usr/bin/env python3
"""Regenerates /verif/MANIFEST.json from the table below (kept in one place so it stays valid)."""
import json, subprocess, os

BASELINE_OFF = "cd /repo && go build ./... && go test -mod=mod -vet=off -count=1 -timeout 25m ./..."

CLAIMED = {
 # id: (level text, level note, design ref)
 "C01": ("Deductive proof (govc: VCs from go/ssa of /repo, z3/cvc5) that enc/v1 follows the published format: identifier tables and the single-digit JSON ids on the wire; nonce = 7-byte prefix | BE32(segment number) | last flag; exactly one Seal/Open per segment under the AEAD that getCipher built from the file key's cipher and payload key; HKDF and HMAC use SHA-256 with the documented info/salt, 32-byte MAC, 44-character third header line; the header is written first and exactly once; processSegments splits the abstract source into consecutively numbered segments independently of chunking; the producer/consumer goroutines are started with the right function, bound key, segment size and streams; the bytes left in the stream after the header are exactly the source content behind the third LF; key-name options incl. refusal of names that are not valid UTF-8; Encrypt/Decrypt refuse no well-formed input.",
         "Assumes AEAD/HKDF/HMAC/base64/JSON/io.Pipe contracts (libspec). The round trip as a theorem (AEAD inverse, JSON value round trip) is an assumption; manifest struct tags are not checked; the 64 KiB header limit is not in the README. Defects found and repaired: file key spare capacity, non-UTF-8 key names.",
         "DESIGN.md 0.3b/0.3c, section 6 C01"),
 "C02": ("Deductive proof, relative to ideal AEAD/MAC contracts: the consumer starts only after the header MAC verified under the key imported from a SUCCESSFULLY unwrapped file key (repaired forgery defect), and it is DecryptSegment bound to that key with segment size 65552 on the rest of the stream; DecryptSegment writes only Open's result and nothing on failure; a clean close happens only after an accepted final segment; every close-with-error carries a non-EOF error; the first non-EOF source error surfaces (end of input = the io.EOF sentinel itself, repaired); Decrypt's error paths return no stream; the segment counter never wraps.",
         "INT-CTXT and MAC unforgeability are assumptions; the prefix property of released bytes is a paper step from the per-segment facts. Known finding (format-level, reported not raised): a document cut right after its header decrypts to the empty message.",
         "DESIGN.md 0.3a-0.3c, section 6 C02"),
 "C03": ("Deductive proof of the parts of the property that are this repository's code: dispatch tables against the Supported*Algorithms lists, sentinel errors (incl. key-wrap and RSA sizes) and no-output-on-error for every helper, PKCS#7 against RFC 5652, AEAD plumbing with key / IV / mode binding ghosts (the cipher is keyed with the given key, CBC runs with the given IV over the given bytes, results are the primitive's results), AES-CBC-HMAC-SHA2 structure per RFC 7518 incl. hash identity, the ECDSA curve of each ES* algorithm, the PSS salt length, key sources of the asymmetric helpers; the repository's own cipher.AEAD implementation is checked against an honest interface libspec (behavioural subtyping). Bounded: aeskw Wrap/Unwrap against an RFC 3394 reference incl. the refused sizes.",
         "Primitive ciphers, hashes and jwx are assumed contracts; 'decryption inverts encryption' and interoperability reduce to 'the code equals the standard's construction' plus those contracts. Defects found and repaired: KW sizes, empty CBC ciphertext, EC curve, PSS salt, RSA sentinel, and the earlier NOPAD/Ed25519/Open/Unwrap ones.",
         "DESIGN.md 0.3b/0.3c, section 6 C03"),
 "C04": ("Deductive proof that parsing and matching implement the documented cron rules: getBits (bit-vector mode), getRange, getField over strings.Split (empty terms refused, every term parsed with the field's bounds), normalizeFields, descriptors, @every, and the wiring of all of these up to Parse / ParseStandard (field text and bounds per position, zone name, a refused field refuses the spec); local soundness of SpecSchedule.Next (starts at the next whole second, the returned instant passed the second / minute / hour / month / day tests, zero time only past the five-year horizon); dayMatches, Every, ConstantDelaySchedule.Next; package tables established by the initializer. Bounded stand-ins (labelled bounded): Next against a wall-clock reference scan in UTC / fixed-offset zones, in DST zones with starts biased to the transitions, and in the hard zones.",
         "Minimality of Next's calendar search is bounded only. Known finding (reported, not raised; identified input by input through a pinned copy of the search): Next is wrong in zones whose DST transition removes local midnight (also east of UTC), shifts by 30 minutes, or whose offset is not a whole minute.",
         "DESIGN.md 0.3a-0.3c, section 6 C04"),
 "C06": ("Deductive proof for queue.Processor: the keyed priority queue invariant through all operations; execute calls the callback only with the head at pop time; not early; the loop is kicked whenever the earliest time got earlier; NO STRANDED ITEM: monitor invariant (queue non-empty and not stopped implies a loop is serving; the running slot is occupied only while a loop serves), the loop gives the slot back exactly once and, on the empty exit, under the lock (repaired defect); Close sends the stop signal on both of its paths (repaired), takes the slot for good and calls the join.",
         "Assumed: two channel-semantics facts (a non-blocking send on the 1-slot channel takes default only when the slot is occupied; a receive on a channel nobody sends on completes only after close), WaitGroup join semantics, container/heap, the callback keeps the processor's configuration. Exactly-once over whole histories is a paper composition; timer delivery is the clock's.",
         "DESIGN.md 0.3b/0.3c, section 6 C06"),
 "C07": ("Deductive proof of absence of panics for the entry points under contract: every index, slice, nil-dereference (incl. calls of nil function values), division, make, type-assertion and explicit-panic obligation generated from the SSA is discharged for all inputs; documented callee panics are excluded by proof; constructs outside the modelled subset are failing obligations, not footnotes; loops carry variants where stated; a nil key, a malformed PEM key block and trailing characters in an ISO-8601 duration are reported by the error (repaired defects); config.Decode's decode hook is under contract against an honest reflect model (no failed assertion, no reflect panic for any value and source type; nil and typed-nil values behind pointers and interfaces are never handed on, non-pointer decoder types are served through their pointer type: three repaired defects). Bounded: termination of SpecSchedule.Next.",
         "Assumes libspec contracts incl. their documented panics, address-space bound on lengths (2^56). Inputs are byte strings and values: readers that never make progress, self-containing configuration values, a foreign Put into the exported BufPool and hand-built key / certificate objects handed to the encoders are stated assumptions; every precondition of an exported function is listed in the evidence; DecodeString implementations of destination types are the programmer's and assumed not to panic; mapstructure itself is assumed not to panic given a well-behaved hook.",
         "DESIGN.md section 6 C07"),
 "C08": ("Deductive proof of ownership and non-interference through package-level state: pooled buffers (enc/v1 BufPool, byteslicepool incl. []byte elements) are owned while used, released once, never returned to callers, zeroed to capacity; the logger registry maps different names to different loggers and sinks, hands out copies, and every access to a logger's entry happens under its lock (repaired race); cron's package tables are established by the initializer and written by nobody else (frames on every option, parser and logger helper).",
         "Data-race freedom as such is not in this family: lock-structured and frame-structured non-interference is what is proved. The cron table invariant at Parse's precondition is an assumption (no package invariants in the contract language); the scheduler part of cron is not covered.",
         "DESIGN.md 0.3b/0.3c, section 6 C08"),
 "C09": ("Deductive proof of the monitor invariants of the coalescing rate limiter for all interleavings of lock-respecting goroutines: no Add is lost (adds == covered + pending), signals never exceed Adds, first event of a window and the pending cap fire at once, the window doubles from InitialDelay with saturation at MaxDelay (repaired overflow) and an open window has an armed timer, every Add spawns exactly one registered token hand-off, every flush exactly one registered signal hand-off that sends at most once, Run listens on all four channels and ends only on close or cancellation.",
         "Monitor rule for sync.RWMutex assumed. Timelines, channel delivery and WaitGroup joins are outside this family. Close no longer waits for the run loop under the lock the loop needs (repaired deadlock; wait-order assertion).",
         "DESIGN.md 0.3a-0.3c, section 6 C09"),
 "C13": ("Deductive proof of the bookkeeping of the lock primitives for all interleavings of lock-respecting goroutines: fifo map (entry present iff users > 0, same mutex per key, pruned at zero, which mutex is used); per-key RW-mutex map with user counts (repaired exclusion defect): registration under the map lock, an entry is removed by delete-and-release only when nobody else uses it; one-slot token channels and token accounting (fifo.Mutex, lock.Context, OuterCancel); lock.Context waits on its own context; OuterCancel: fresh reader slot, message shapes across the channels (an error answer holds nothing), release of exactly the own registration once with the configured cause, grace duration, the writer answers only after wg.Wait and keeps the slot, sweeps reach every registered reader.",
         "Mutual exclusion and FIFO grant are the semantics of Go channels and sync.RWMutex (assumed); OuterCancel additionally assumes WaitGroup count = registered readers and a single hold-handling goroutine. Known finding (reported, not raised): OuterCancel.RLock keeps waiting after its context ended while the handler is busy.",
         "DESIGN.md 0.3a-0.3c, section 6 C13"),
 "C14": ("Deductive proof of linearizability of the concurrent map, atomic-counter map and concurrent slice (one linearizing critical section per method against the sequential model, incl. complete duplicate-free Keys / Range / ForEach, constructors, the slice owns its storage and hands out no spare capacity (repaired)); pointer-level contracts of ring.Ring incl. its loops; ring.Buffered refines a FIFO queue for every operation sequence incl. RemoveFront on the empty queue and huge buffer sizes (repaired). Bounded cross-checks: Buffered against a slice queue (exhaustive short sequences + random), ring.Ring differentially against container/ring.",
         "Meta-theorem (mutual exclusion => acquisition order is a legal sequential history) is stated, not mechanised; completeness of range-over-map is a listed language-semantics assumption; callbacks are assumed not to touch the structure.",
         "DESIGN.md 0.3b/0.3c, section 6 C14"),
 "C15": ("Deductive proof of ttlcache's sequential semantics against an abstract map: Set stores (value, now + min(ttl, maxTTL)) for that key only and never later than that; Get hits iff present and strictly before expiry; Delete; Cleanup removes only entries expired at the clock reading it actually took; Reset; life cycle: the cleaner closes its channel last and only after the stop signal, every Stop waits for it. Bounded stand-in (labelled bounded) for the schedule-quantified half: concurrent Set/Get/Cleanup against the quiescent expectations.",
         "haxmap is ASSUMED linearizable with a complete ForEach. Known finding (reported, not raised): it is not, under concurrent Set and bulk Del (live entries vanish; Reset can leave entries that Get still returns).",
         "DESIGN.md 0.3a-0.3c, section 6 C15"),
 "C16": ("Deductive proof that the stream wrappers implement the io.Reader contract over the right abstract content for every source satisfying that contract (universally quantified (n, err) answers = every chunking): limit verdicts, concatenation order, tee bytes for every outcome, progress, close-once as state invariants, constructors, WriteTo bytes / order / sum.",
         "Assumes the io contracts in libspec/io.spec; the whole-stream statement is a paper induction over the per-call clauses. Known finding (reported, not raised): MultiReaderCloser drops a source on http.ErrBodyReadAfterClose without it being exhausted or closed. Defects repaired: MaxInt64 limit, EOF with extra byte, WriteTo closing, tee wrapped EOF.",
         "DESIGN.md 0.3a-0.3c, section 6 C16"),
 "C17": ("Deductive proof of frame obligations: every store, copy, clear, in-place append, callee effect and goroutine spawned by the crypto helpers targets memory allocated in the same activation or listed in the modifies clause (empty, or exactly the explicit AEAD destination window); every exported function of the four packages that takes a []byte is under such a contract (coverage obligation).",
         "Assumes the frame clauses of library callees in /verif/libspec.",
         "DESIGN.md 0.3b/0.3c, section 6 C17"),
 "C18": ("Deductive proof against a ghost filesystem with an honest symlink model (link text resolved from the link's directory; relative and absolute targets): at every filesystem call of Write, i.e. at every crash point, the target is absent or resolves to exactly one Write's complete set and, once present, never becomes absent; the set shown after a successful Write is exactly the given files; nothing this Dir created is left behind (also after a restart: the previous version is adopted and removed); error returns leave the target unchanged and clean up; recoverability from every crash-reachable state.",
         "Assumes the os/filepath contracts in libspec/os_fs.spec (POSIX rename atomicity, no symlinked ancestors of the target, page-cache crash model), Sprintf of the version name, single writer; 'only the current version remains' holds when the cleanup calls succeed. Seven defects repaired.",
         "DESIGN.md 0.3b/0.3c, section 6 C18"),
 "C19": ("Deductive proof of the laws of the SPIFFE source: no goroutine blocks on readyCh while holding the lock Run needs; Run closes readyCh exactly once before unlocking on both paths, records success or failure of the initial fetch, starts the rotation with the caller's context; Ready/GetX509SVID wait on readyCh (or the context) and answer accordingly; runRotation ends only when the context ends, stores every renewed SVID, retries a failed renewal after 10 s and never postpones because of a failure; fetchIdentityCertificate refuses nil certificates (repaired), publishes exactly {key.pem, cert.pem, ca.pem} of this fetch once, and a failed fetch leaves the published set alone (repaired in dir.Write).",
         "Assumes contracts for x509/ecdsa/pem/clock, the dir.Write contract (verified separately), callbacks that terminate and do not call back. Wall-clock timeliness across goroutines is not claimed.",
         "DESIGN.md 0.3b/0.3c, section 6 C19"),
 "C20": ("Deductive proof for all interleavings: the watcher waits on exactly its current member and the closed channel and calls cancel() only when every member it tracked has ended or Cancel was called; NewPool tracks exactly its live arguments and derives the pool context from Background; Add tracks the offered context unless the pool has ended or was cancelled; Cancel empties the pool and closes the closed channel once; Size; nobody else calls cancel; the lock hand-off to the watcher is a precondition proved at the go statement.",
         "Channel semantics (a receive from a Done channel completes only once it is closed; default only if no case is ready) are stated once, generally, as assumptions tied to the real select operands. Eventual cancellation and watcher termination are liveness and not claimed; composing 'tracked' with the watcher law is a paper step.",
         "DESIGN.md 0.3b/0.3c, section 6 C20"),
}

REASON_WIP = "check not built yet in this round (planned: see DESIGN.md §6); not claimed until its obligations discharge on the unchanged tree"
NOT_APPLICABLE = {
 "C05": "whole-history/liveness property of a scheduler goroutine driven by timers and channels; per-function contracts have no handle on it (DESIGN.md §7)",
 "C10": "timeline law over timer-driven goroutines and deadlock freedom of select-based forwarders; no sound contract rule within reach (DESIGN.md §7)",
 "C11": "exactly-once delivery / common order / deadlock freedom are goroutine-channel interleaving properties with no lock-only kernel (DESIGN.md §7)",
 "C12": "cross-goroutine ordering and channel-multiset facts plus a grace timer; not expressible as contracts of single calls (DESIGN.md §7)",
}

def main():
    props = [json.loads(l)["id"] for l in open("/verif/properties.jsonl")]
    checks = []
    for pid in props:
        if pid not in CLAIMED:
            continue
        text, note, ref = CLAIMED[pid]
        checks.append({
            "property_id": pid,
            "quick_cmd": f"./bin/govc check {pid} --tier quick",
            "thorough_cmd": f"./bin/govc check {pid} --tier thorough",
            "evidence_file": f"/verif/evidence/{pid}.json",
            "replay_cmd_template": "./bin/govc replay {path}",
            "engine": "govc",
            "level_claimed": {"category": "proof", "text": text, "design_ref": ref},
            "level_note": note,
            "technique": "contract-based deductive verification: weakest-precondition VCs over go/ssa, discharged by z3/cvc5",
        })
    na = []
    for pid in props:
        if pid in CLAIMED:
            continue
        na.append({"property_id": pid, "reason": NOT_APPLICABLE.get(pid, REASON_WIP)})
    commits = subprocess.run(["git", "-C", "/repo", "log", "--format=%h %s", "981b908..HEAD"], capture_output=True, text=True).stdout.strip().split("\n")
    hook_commits = [c.split()[0] for c in commits if c and c.split(" ", 1)[1].startswith("verif:")]
    m = {
        "version": 1,
        "setup_cmd": "cd /verif/tool && GOFLAGS=-mod=vendor GOPROXY=off GOSUMDB=off GOTOOLCHAIN=local go build -o /verif/bin/govc ./cmd/govc",
        "hooks": {
            "guard": "verif",
            "enable": "go build tag: -tags verif (contract files zz_contracts_verif.go are comment-only and carry //go:build verif)",
            "baseline_off_cmd": "for m in $(cat /w/out/gomods.txt); do MF=$(cd /repo/$m && . /w/out/goenv.sh && gomodflag); (cd /repo/$m && go test $MF -json -vet=off -count=1 -timeout 25m ./...); done",
            "source_commits": hook_commits,
            "add_only": True,
        },
        "engines": [{"name": "govc", "path": "/verif/tool/cmd/govc", "serves_properties": sorted(CLAIMED), "kind_free_text": "verification-condition generator over go/ssa with Gobra-style //@ contracts; solvers z3 4.8.12, z3 5.1.0, cvc5 raced per obligation; counterexamples replayed with go test -overlay"}],
        "checks": checks,
        "not_applicable": na,
        "notes": "Contracts live in /repo/**/zz_contracts_verif.go (tag verif, comments only); assumed library contracts in /verif/libspec. Fixes of genuine defects are 'fix:' commits in /repo, recorded in /verif/known_findings.json.",
    }
    json.dump(m, open("/verif/MANIFEST.json", "w"), indent=1)
    print("wrote MANIFEST.json:", len(checks), "checks,", len(na), "not applicable")

main()
