#!/usr/bin/env python3
"""Regenerates /verif/MANIFEST.json from the table below (kept in one place so it stays valid)."""
import json, subprocess, os

BASELINE_OFF = "cd /repo && go build ./... && go test -mod=mod -vet=off -count=1 -timeout 25m ./..."

CLAIMED = {
 # id: (level text, level note, design ref)
 "C01": ("Deductive proof that enc/v1 follows the published format (README as oracle): identifier tables and aliases are mutually inverse; nonce = 7-byte prefix | BE32(segment number) | last flag; exactly one Seal/Open per segment with that nonce; header and payload keys are HKDF-SHA256 with the documented info/salt; the header is scheme | LF | manifest | LF | base64(HMAC) | LF within 64 KiB; processSegments splits the abstract source into consecutively numbered segments of exactly S bytes with only the last one shorter, non-empty and flagged, independently of how the reader chunks its answers (universally quantified (n, err)); key-name options.",
         "Assumes AEAD/HKDF/HMAC/base64/JSON/io.Pipe contracts (encv1_libs.spec, crypto.spec, hmac_binary.spec). 'An independent implementation decrypts it' is reduced to 'the code equals the README's spec functions'; the goroutine/pipe hand-off is io.Pipe's contract; the round trip follows from these facts plus AEAD inverse (paper step).",
         "DESIGN.md §6 C01"),
 "C02": ("Deductive proof, relative to ideal AEAD/MAC contracts, of the ordering and bookkeeping obligations: processSegments starts only after VerifyHeaderSignature returned nil; a wrong-length unwrapped key is replaced by 32 zero bytes; DecryptSegment writes only Open's result and nothing on failure; clean close only after an accepted final segment (known finding: the empty-stream path, registered in known_findings.json); source-reader errors close the pipe with that error; counter never wraps.",
         "INT-CTXT and MAC unforgeability are assumptions; prefix property of released bytes is argued on paper from the per-segment facts. Known finding (format-level): a document cut after its header decrypts to the empty message.",
         "DESIGN.md §6 C02"),
 "C03": ("Deductive proof (govc: VCs generated from go/ssa of /repo, discharged by z3/cvc5) of the parts of the property that are this repository's code: dispatch tables against the Supported*Algorithms lists, sentinel errors and no-output-on-error for every helper, PKCS#7 pad/unpad against RFC 5652 as quantified postconditions, AEAD plumbing (what is handed to Seal/Open and how the output is split), AES-CBC-HMAC-SHA2 structure per RFC 7518 (key split, MAC input order AD|IV|CT|AL, tag checked before decryption), key-wrap length/integrity facts. Primitive ciphers are assumed contracts.",
         "Assumes: libspec contracts of the standard library and jwx (listed in evidence trusted_base), govc's SSA->SMT encoding, solver soundness. Interop with independent implementations and strength of tamper rejection are reduced to 'code equals the spec functions' plus the primitives' assumed contracts; RFC 3394 functional correctness of aeskw is not proved.",
         "DESIGN.md §6 C03"),
 "C04": ("Deductive proof that parsing and matching implement the documented cron rules: getBits equals the recursive bit-set spec for stepped ranges (bit-vector mode), getRange accepts exactly the documented forms with the documented value, getField is the union of its terms, normalizeFields accepts exactly the documented field counts and fills defaults/optionals on the documented side, the five descriptors equal their documented equivalents bit for bit, Parse wires the six fields in order and refuses empty specs, unknown zones, descriptors when disabled; dayMatches (and/or rule), Every and ConstantDelaySchedule.Next; the package tables are verified in the initializer.",
         "Assumes contracts of strings/strconv/time (uninterpreted atoi/lower/split facts in /verif/libspec/strings_time.spec), int-view bridging of the bit-vector functions. The minimality/soundness of SpecSchedule.Next's calendar search depends on the time package's calendar arithmetic and is NOT proved (safety only); it is listed as not covered.",
         "DESIGN.md §6 C04"),
 "C06": ("Deductive proof of the sequential kernel of queue.Processor: the keyed priority queue keeps its index/heap/map invariant through Insert (with replace), Remove, Pop, Peek, Update; Less is the strict order on ScheduledTime; execute calls the callback only with the item that is the head at pop time under the lock and equals the peeked one; processLoop reaches execute only if the item is due within 500 microseconds or after the timer armed with exactly the remaining time fired; Enqueue/Dequeue compute isFirst exactly and call process under the lock.",
         "container/heap is an assumed contract (heap.spec); Queueable methods are assumed pure. Not covered (outside this family): the stranded-item liveness question, Close/WaitGroup ordering, exactly-once over whole histories, timer semantics.",
         "DESIGN.md §6 C06"),
 "C07": ("Deductive proof of absence of panics for the entry points under contract: every index, slice, nil-dereference, division, make, type-assertion and explicit-panic obligation generated from the SSA is discharged for all inputs, callee documented panics (CryptBlocks, NewCBCDecrypter, Seal, ed25519.Verify, ...) are excluded by proof; loops carry variants where stated.",
         "Assumes libspec contracts incl. their documented panics, address-space bound on lengths (2^56), govc's encoding. Entry points outside the contract files (reflection-based metadata/config decoding, time parsing, pem) are not covered and are listed in DESIGN.md.",
         "DESIGN.md §6 C07"),
 "C08": ("Deductive proof of ownership and immutability contracts: the logger registry is only touched under its lock, NewLogger never replaces a registered logger and getLoggers hands out a fresh copy (monitor rule, all interleavings); cron's package-level tables and default parser are never written outside the verified initializer (frame obligations on every cron function).",
         "Data-race freedom as such is not in this family; only lock-structured and frame-structured non-interference is proved. enc/v1 buffer-pool ownership and byteslicepool are covered when their contracts land (see evidence).",
         "DESIGN.md §6 C08"),
 "C09": ("Deductive proof of the monitor invariant of the coalescing rate limiter's lock for all interleavings of lock-respecting goroutines: signals never exceed Adds, a signal is spawned only when something is pending, Add always records a pending event, first event of a window and the pending cap fire at once; option validation.",
         "Monitor rule for sync.RWMutex (mutual exclusion assumed). Timelines (when signals arrive), Close/WaitGroup joins and goroutine hand-offs are outside this family and not claimed.",
         "DESIGN.md §6 C09, §3"),
 "C13": ("Deductive proof of the per-key bookkeeping of the lock maps for all interleavings of lock-respecting goroutines: fifo map entries exist exactly while some holder/waiter unit exists (no nil dereference, no counter underflow for correctly paired callers, entry pruned when the last unit leaves, per-key lock taken only after the map lock is released); cmap mutex map: lookups under the read lock, creation/Delete*/Clear under the write lock, per-key unlock before removal.",
         "Mutual exclusion and FIFO grant order are the semantics of Go channels and sync.RWMutex (assumed). lock.Context / OuterCancel goroutine protocols are not covered.",
         "DESIGN.md §6 C13, §3"),
 "C14": ("Deductive proof of linearizability of the concurrent map, atomic-counter map and concurrent slice by the coarse-grained-locking argument: every method has one linearizing critical section whose effect on the abstract state equals the sequential model (state after acquisition = arbitrary, constrained by the lock invariant), including the double-checked GetOrCreate; pointer-level contracts of ring.Ring's straight-line methods.",
         "Meta-theorem (mutual exclusion => ordering by acquisition yields a legal sequential history) is stated, not mechanised. ring loops (Len/Move/New/Do) and ring.Buffered are not yet under contract.",
         "DESIGN.md §6 C14, §3.3"),
 "C15": ("Deductive proof of ttlcache's sequential semantics against an abstract map (ghost has/val/exp on the haxmap): Set stores (value, now + min(ttl, maxTTL)) for that key only; Get returns the value iff present and strictly before expiry; Delete; Cleanup deletes only expired entries it enumerated; Reset; Stop closes once.",
         "Assumes haxmap and k8s clock contracts (haxmap_clock.spec), a ForEach summary (explicit at-assume), ttl <= 292 years. Periodic ticking and the goroutine join in Stop are not covered.",
         "DESIGN.md §6 C15"),
 "C16": ("Deductive proof that the stream wrappers implement the io.Reader contract over the right abstract content for every source satisfying that contract (universally quantified (n, err) answers = every chunking): limit, EOF/ErrStreamTooLarge discrimination, concatenation order, tee log, close-once bookkeeping through Read and WriteTo.",
         "Assumes the io.Reader/io.Closer/io.Writer contracts in /verif/libspec/io.spec (ghost content/position/close-count per interface value), distinct source objects, govc's encoding, solver soundness.",
         "DESIGN.md §6 C16"),
 "C17": ("Deductive proof of frame obligations: every store, copy, in-place append and callee effect in the crypto helpers under contract targets memory allocated in the same activation or listed in the modifies clause (empty, or dst[len:cap] for the explicit AEAD destination); spare capacity is part of the goal.",
         "Assumes the frame clauses of library callees in /verif/libspec, govc's encoding, solver soundness.",
         "DESIGN.md §6 C17"),
 "C18": ("Deductive proof against a ghost filesystem: the crash invariant (target absent, or a symlink to a complete version directory that is not the one being filled) is asserted after every filesystem call of Write, i.e. at every crash point, for every file map; no-crash postconditions; recoverability: a fresh Dir writing from any crash-reachable state succeeds when the individual os calls do not fail for external reasons.",
         "Assumes the os/filepath contracts in /verif/libspec/os_fs.spec (POSIX rename atomicity, symlink semantics), completeness of Go's range over a map (listed), distinct time stamps, single writer.",
         "DESIGN.md §6 C18"),
 "C19": ("Deductive proof of the sequential laws of the SPIFFE source and of the readiness wait order: no goroutine blocks on readyCh while holding the lock Run needs (at-assert at every blocking receive/select); Run closes readyCh exactly once before unlocking on both paths and sets currentSVID iff the fetch succeeded; GetX509SVID returns the current SVID or an error; renewalTime is the half-life; runRotation arms min(1 min, renewTime-now), fetches after the wake-up past renewTime, never writes currentSVID on the error path and retries after 10 s; fetchIdentityCertificate uses a key generated in the same activation and hands dir.Write exactly {key.pem, cert.pem, ca.pem}.",
         "Assumes contracts for x509/ecdsa/pem/clock (spiffe_libs.spec), the dir.Write contract (verified separately). Wall-clock timeliness of renewal across goroutines is outside this family and not claimed.",
         "DESIGN.md §6 C19"),
 "C20": ("Deductive proof of the 'never earlier' half for all interleavings: the watcher goroutine calls cancel() only when every member it tracked at its last look has ended or Cancel was called (loop invariant under the read lock, rely/guarantee across the lock gap, each writer section proved to satisfy the rely); Add/Cancel/Size against the sequential model of their critical section.",
         "Channel contract (a receive from a Done channel returns only once it is closed; select takes default only if no case is ready) and monitor rule assumed. Eventual cancellation and termination of the watcher are liveness and not claimed.",
         "DESIGN.md §6 C20, §3.4"),
}

REASON_WIP = "check not built yet in this round (planned: see DESIGN.md §6); not claimed until its obligations discharge on the unchanged tree"
NOT_APPLICABLE = {
 "C05": "whole-history/liveness property of a scheduler goroutine driven by timers and channels; per-function contracts have no handle on it (DESIGN.md §7)",
 "C10": "timeline law over timer-driven goroutines and deadlock freedom of select-based forwarders; no sound contract rule within reach (DESIGN.md §7)",
 "C11": "exactly-once delivery / common order / deadlock freedom are goroutine-channel interleaving properties with no lock-only kernel (DESIGN.md §7)",
 "C12": "cross-goroutine ordering and channel-multiset facts plus a grace timer; not expressible as contracts of single calls (DESIGN.md §7)",
}

def main():
    props = [json.loads(l)["id"] for l in open("/verif/properties.jsonl")]
    checks = []
    for pid in props:
        if pid not in CLAIMED:
            continue
        text, note, ref = CLAIMED[pid]
        checks.append({
            "property_id": pid,
            "quick_cmd": f"./bin/govc check {pid} --tier quick",
            "thorough_cmd": f"./bin/govc check {pid} --tier thorough",
            "evidence_file": f"/verif/evidence/{pid}.json",
            "replay_cmd_template": "./bin/govc replay {path}",
            "engine": "govc",
            "level_claimed": {"category": "proof", "text": text, "design_ref": ref},
            "level_note": note,
            "technique": "contract-based deductive verification: weakest-precondition VCs over go/ssa, discharged by z3/cvc5",
        })
    na = []
    for pid in props:
        if pid in CLAIMED:
            continue
        na.append({"property_id": pid, "reason": NOT_APPLICABLE.get(pid, REASON_WIP)})
    commits = subprocess.run(["git", "-C", "/repo", "log", "--format=%h %s", "981b908..HEAD"], capture_output=True, text=True).stdout.strip().split("\n")
    hook_commits = [c.split()[0] for c in commits if c and c.split(" ", 1)[1].startswith("verif:")]
    m = {
        "version": 1,
        "setup_cmd": "cd /verif/tool && GOFLAGS=-mod=vendor GOPROXY=off GOSUMDB=off GOTOOLCHAIN=local go build -o /verif/bin/govc ./cmd/govc",
        "hooks": {
            "guard": "verif",
            "enable": "go build tag: -tags verif (contract files zz_contracts_verif.go are comment-only and carry //go:build verif)",
            "baseline_off_cmd": "for m in $(cat /w/out/gomods.txt); do MF=$(cd /repo/$m && . /w/out/goenv.sh && gomodflag); (cd /repo/$m && go test $MF -json -vet=off -count=1 -timeout 25m ./...); done",
            "source_commits": hook_commits,
            "add_only": True,
        },
        "engines": [{"name": "govc", "path": "/verif/tool/cmd/govc", "serves_properties": sorted(CLAIMED), "kind_free_text": "verification-condition generator over go/ssa with Gobra-style //@ contracts; solvers z3 4.8.12, z3 5.1.0, cvc5 raced per obligation; counterexamples replayed with go test -overlay"}],
        "checks": checks,
        "not_applicable": na,
        "notes": "Contracts live in /repo/**/zz_contracts_verif.go (tag verif, comments only); assumed library contracts in /verif/libspec. Fixes of genuine defects are 'fix:' commits in /repo, recorded in /verif/known_findings.json.",
    }
    json.dump(m, open("/verif/MANIFEST.json", "w"), indent=1)
    print("wrote MANIFEST.json:", len(checks), "checks,", len(na), "not applicable")

main()
