#!/usr/bin/env python3
"""Merges the confirmation run (confirm.log) into each /verif/seeded/<id>/meta.json."""
import json, glob, os, re
for d in sorted(glob.glob('/verif/seeded/*/')):
    try:
        meta=json.load(open(d+'meta.json'))
        log=open(d+'confirm.log').read()
    except Exception:
        continue
    m=re.findall(r'^RESULT (.*)$', log, re.M)
    if not m: continue
    res=m[-1]
    stale = 'patch-does-not-apply' in res
    cm = re.findall(r'caught_by=\[(.*?)\]', res)
    caught = cm[-1].split() if cm else []
    obl=sorted(set(re.findall(r'^  (?:obligation|bounded stand-in) (\S+)', log, re.M)))
    meta['confirmed_by_main']={
        'how':'scripts/seedcheck.sh: scratch copy of /repo, patch applied, go build ./..., existing tests of the affected packages (twice), demonstration with and without the change, then the registered quick checks against the patched copy',
        'existing_tests_pass_with_change': 'tests_ok=yes' in res,
        'demo_fails_with_change': 'demo_with=fail' in res,
        'demo_passes_without_change': 'demo_without=pass' in res,
        'caught_by_checks': caught,
        'applies_to_current_tree': not stale,
        'note': ('the patch no longer applies: the code it changed was repaired or rewritten afterwards; the result recorded here is the one obtained on the tree it was seeded for' if stale else ''),
        'failing_obligations': obl[:8],
    }
    json.dump(meta, open(d+'meta.json','w'), indent=1)
print('updated')
