#!/bin/bash
# Must-fail corpus: applies each mutant patch to a scratch copy of /repo's working tree and demands that
# the property's check reports a VIOLATION whose obligation matches the .expect file.
# usage: scripts/selftest.sh [property ...]
set -u
cd /verif
props="$@"
[ -z "$props" ] && props=$(ls selftest/mutants)
fail=0; ran=0
for p in $props; do
  for patch in selftest/mutants/$p/*.patch; do
    [ -f "$patch" ] || continue
    name=$(basename "$patch" .patch)
    want=$(cat "selftest/mutants/$p/$name.expect" 2>/dev/null)
    scratch=$(mktemp -d /tmp/govc-selftest.XXXXXX)
    rsync -a --exclude .git /repo/ "$scratch/repo/"
    if ! (cd "$scratch/repo" && patch -p1 -s --forward < "/verif/$patch" >/dev/null 2>&1); then
      echo "SKIP  $p/$name (patch no longer applies)"; rm -rf "$scratch"; continue
    fi
    mkdir -p "$scratch/verif"; ln -s /verif/libspec "$scratch/verif/libspec"; ln -s /verif/replaytmpl "$scratch/verif/replaytmpl"; ln -s /verif/bounded "$scratch/verif/bounded"; cp /verif/known_findings.json /verif/contracts_names.json "$scratch/verif/" 2>/dev/null
    dirs=$(grep '^+++ ' "/verif/$patch" | sed 's|^+++ [ab]/||; s|\t.*||' | xargs -n1 dirname | sort -u | paste -sd,)
    out=$(GOVC_QUERY_TIMEOUT=${GOVC_SELFTEST_TIMEOUT:-8} GOVC_ONLY_DIRS="$dirs" GOVC_REPO="$scratch/repo" GOVC_VERIF="$scratch/verif" ./bin/govc check "$p" --tier quick 2>&1)
    ran=$((ran+1))
    if echo "$out" | grep -q "^VIOLATION property=$p" && echo "$out" | grep -E "^  (obligation|bounded) " | grep -q -F -- "$want"; then
      echo "OK    $p/$name -> $(echo "$out" | grep -E "^  (obligation|bounded) " | grep -F -- "$want" | head -1 | cut -c1-120)"
    else
      echo "MISS  $p/$name (expected a failing obligation matching '$want')"; echo "$out" | tail -5 | sed 's/^/      /'
      fail=$((fail+1))
    fi
    rm -rf "$scratch"
  done
done
echo "selftest: $ran mutants run, $fail missed"
[ $fail -eq 0 ]
