#!/usr/bin/env python3
"""Prints the table of independently seeded changes (/verif/seeded/*) and which check catches each."""
import json, glob, os, re
rows=[]
for d in sorted(glob.glob('/verif/seeded/*/')):
    sid=os.path.basename(d.rstrip('/'))
    try:
        meta=json.load(open(d+'meta.json'))
    except Exception:
        meta={}
    res=''
    obl=''
    try:
        log=open(d+'confirm.log').read()
        m=re.findall(r'^RESULT .*$', log, re.M)
        res=m[-1] if m else ''
        o=re.findall(r'^  (?:obligation|bounded stand-in) (\S+)', log, re.M)
        obl=', '.join(sorted(set(o))[:3])
    except Exception:
        pass
    cm=re.findall(r'caught_by=\[(.*?)\]', res)
    c=(cm[-1] if cm else '?')
    if 'patch-does-not-apply' in res:
        c=(c or '**missed**')+' (earlier tree; patch no longer applies)'
    if not obl:
        obl=', '.join((meta.get('confirmed_by_main') or {}).get('failing_obligations',[])[:3])
    rows.append((sid, meta.get('property',''), (meta.get('what_it_breaks','') or '')[:110].replace('\n',' '), c, obl))
print('| seed | property | what it breaks | caught by | failing obligation(s) |')
print('|---|---|---|---|---|')
for r in rows:
    print('| %s | %s | %s | %s | %s |' % (r[0], r[1], r[2].replace('|','/'), r[3] or '**missed**', r[4]))
