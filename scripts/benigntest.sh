#!/bin/bash
# Must-pass corpus: behaviour-preserving edits (renamed locals, reordered independent statements, changed messages,
# small refactors). Each patch is applied to a scratch copy of /repo's working tree; the property's quick check has to
# exit 0 without a VIOLATION line there. A failure here is a false alarm of the machinery.
# usage: scripts/benigntest.sh [property ...]      (BENIGN_FULL=1: check all packages, not only the patched ones)
set -u
cd /verif
props="$@"
[ -z "$props" ] && props=$(ls selftest/benign)
bad=0; ran=0
for p in $props; do
  for patch in selftest/benign/$p/*.patch; do
    [ -f "$patch" ] || continue
    name=$(basename "$patch" .patch)
    scratch=$(mktemp -d /tmp/govc-benign.XXXXXX)
    rsync -a --exclude .git /repo/ "$scratch/repo/"
    if ! (cd "$scratch/repo" && patch -p1 -s --forward < "/verif/$patch" >/dev/null 2>&1); then
      echo "SKIP  $p/$name (patch no longer applies)"; rm -rf "$scratch"; continue
    fi
    mkdir -p "$scratch/verif"; ln -s /verif/libspec "$scratch/verif/libspec"; ln -s /verif/replaytmpl "$scratch/verif/replaytmpl"; ln -s /verif/bounded "$scratch/verif/bounded"; cp /verif/known_findings.json /verif/contracts_names.json "$scratch/verif/" 2>/dev/null
    dirs=$(grep '^+++ ' "/verif/$patch" | sed 's|^+++ [ab]/||; s|\t.*||' | xargs -n1 dirname | sort -u | paste -sd,)
    [ -n "${BENIGN_FULL:-}" ] && dirs=""
    out=$(GOVC_ONLY_DIRS="$dirs" GOVC_REPO="$scratch/repo" GOVC_VERIF="$scratch/verif" ./bin/govc check "$p" --tier quick 2>&1); rc=$?
    ran=$((ran+1))
    if [ $rc -eq 0 ] && ! echo "$out" | grep -q "^VIOLATION"; then
      echo "PASS  $p/$name"
    else
      echo "ALARM $p/$name"; echo "$out" | grep -E "^  (obligation|bounded) |ENGINE|translate" | head -4 | cut -c1-220 | sed 's/^/      /'
      bad=$((bad+1))
    fi
    rm -rf "$scratch"
  done
done
echo "benigntest: $ran harmless edits run, $bad false alarms"
[ $bad -eq 0 ]
