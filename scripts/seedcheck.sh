#!/bin/bash
# usage: seedcheck.sh <dir with patch.diff demo_test.go meta.json> <seed-id> [properties to check …]
# Confirms a seeded change (compiles, existing tests pass, demo fails with / passes without), runs the
# registered checks of the given properties against it on a scratch copy, and stores everything under
# /verif/seeded/<seed-id>/.
set -u
src=$1; id=$2; shift 2
export GOFLAGS=-mod=mod GOPROXY=off GOSUMDB=off GOTOOLCHAIN=local
props="$@"
[ -z "$props" ] && props=$(python3 -c "import json;print(json.load(open('$src/meta.json'))['property'])")
scratch=$(mktemp -d /tmp/govc-seed.XXXXXX)
rsync -a --exclude .git /repo/ "$scratch/repo/"
cd "$scratch/repo"
out=/verif/seeded/$id; mkdir -p "$out"
cp "$src/patch.diff" "$src/meta.json" "$out/"; cp "$src/demo_test.go" "$out/demo_test.go.txt"
log="$out/confirm.log"; prev=$(grep "^RESULT" "$log" 2>/dev/null | grep -v patch-does-not-apply | tail -1); : > "$log"
place=$(head -1 "$src/demo_test.go" | sed -n 's|^// place at: *||p')
if [ -z "$place" ]; then echo "no 'place at' line in demo" | tee -a "$log"; fi
if ! patch -p1 -s --forward < "$src/patch.diff" >>"$log" 2>&1; then echo "RESULT patch-does-not-apply (the code changed since this change was seeded: repaired or rewritten); earlier result on the tree it was seeded for: ${prev:-none}" | tee -a "$log"; rm -rf "$scratch"; exit 2; fi
pkgs=$(grep '^+++ ' "$src/patch.diff" | sed 's|^+++ [ab]/||; s|\t.*||' | xargs -n1 dirname | sort -u | sed 's|^|./|')
echo "packages: $pkgs" >> "$log"
if ! go build ./... >>"$log" 2>&1; then echo "RESULT does-not-compile" | tee -a "$log"; rm -rf "$scratch"; exit 2; fi
tests_ok=yes
for i in 1 2; do go test -tags unit -count=1 -timeout 20m $pkgs >>"$log" 2>&1 || tests_ok=no; done
echo "existing tests with change: $tests_ok" | tee -a "$log"
demo_with=skip; demo_without=skip
if [ -n "$place" ]; then
  cp "$src/demo_test.go" "$place"
  names=$(grep -o '^func Test[A-Za-z0-9_]*' "$src/demo_test.go" | sed 's/func //' | paste -sd'|')
  if go test -tags unit -count=1 -timeout 10m -run "^($names)\$" ./$(dirname "$place")/ >>"$log" 2>&1; then demo_with=pass; else demo_with=fail; fi
  patch -p1 -s -R < "$src/patch.diff" >>"$log" 2>&1
  if go test -tags unit -count=1 -timeout 10m -run "^($names)\$" ./$(dirname "$place")/ >>"$log" 2>&1; then demo_without=pass; else demo_without=fail; fi
  rm -f "$place"
  patch -p1 -s --forward < "$src/patch.diff" >>"$log" 2>&1
fi
echo "demo with change: $demo_with (want fail); without: $demo_without (want pass)" | tee -a "$log"
mkdir -p "$scratch/verif"; ln -s /verif/libspec "$scratch/verif/libspec"; ln -s /verif/replaytmpl "$scratch/verif/replaytmpl"; ln -s /verif/bounded "$scratch/verif/bounded"; cp /verif/known_findings.json "$scratch/verif/"
caught=""
for p in $props; do
  res=$(cd /verif && GOVC_REPO="$scratch/repo" GOVC_VERIF="$scratch/verif" ./bin/govc check "$p" --tier quick 2>&1)
  echo "---- govc check $p" >> "$log"; echo "$res" | grep -E "^VIOLATION|^  (obligation|bounded)|^property|ENGINE" | cut -c1-300 >> "$log"
  if echo "$res" | grep -q "^VIOLATION property=$p"; then caught="$caught $p"; fi
done
echo "RESULT tests_ok=$tests_ok demo_with=$demo_with demo_without=$demo_without caught_by=[${caught# }]" | tee -a "$log"
rm -rf "$scratch"
