package main

import (
	"fmt"
	"strings"
)

// Term is an SMT-LIB 2 s-expression in text form.
type Term = string

const (
	tTrue  = "true"
	tFalse = "false"
)

func sx(op string, args ...Term) Term {
	if len(args) == 0 {
		return op
	}
	return "(" + op + " " + strings.Join(args, " ") + ")"
}

func tInt(n int64) Term {
	if n < 0 {
		return fmt.Sprintf("(- %d)", -n)
	}
	return fmt.Sprintf("%d", n)
}

func tIntS(s string) Term {
	if strings.HasPrefix(s, "-") {
		return "(- " + s[1:] + ")"
	}
	return s
}

func tAnd(args ...Term) Term {
	var out []Term
	for _, a := range args {
		if a == tTrue || a == "" {
			continue
		}
		if a == tFalse {
			return tFalse
		}
		if strings.HasPrefix(a, "(and ") {
			if n := parseSx(a); n != nil && n.head() == "and" {
				for _, k := range n.kids[1:] {
					out = append(out, k.String())
				}
				continue
			}
		}
		out = append(out, a)
	}
	switch len(out) {
	case 0:
		return tTrue
	case 1:
		return out[0]
	}
	return sx("and", out...)
}

func tOr(args ...Term) Term {
	var out []Term
	for _, a := range args {
		if a == tFalse || a == "" {
			continue
		}
		if a == tTrue {
			return tTrue
		}
		out = append(out, a)
	}
	switch len(out) {
	case 0:
		return tFalse
	case 1:
		return out[0]
	}
	return sx("or", out...)
}

func tNot(a Term) Term {
	switch a {
	case tTrue:
		return tFalse
	case tFalse:
		return tTrue
	}
	if strings.HasPrefix(a, "(not ") && strings.HasSuffix(a, ")") {
		inner := a[5 : len(a)-1]
		if balanced(inner) {
			return inner
		}
	}
	return sx("not", a)
}

// balanced reports whether s is a single well-formed s-expression or atom.
func balanced(s string) bool {
	depth := 0
	for i, c := range s {
		switch c {
		case '(':
			depth++
		case ')':
			depth--
			if depth < 0 {
				return false
			}
			if depth == 0 && i != len(s)-1 {
				return false
			}
		case ' ':
			if depth == 0 {
				return false
			}
		}
	}
	return depth == 0
}

func tImp(a, b Term) Term {
	if a == tTrue {
		return b
	}
	if a == tFalse || b == tTrue {
		return tTrue
	}
	if b == tFalse {
		return tNot(a)
	}
	return sx("=>", a, b)
}

func tIte(c, a, b Term) Term {
	if c == tTrue {
		return a
	}
	if c == tFalse {
		return b
	}
	if a == b {
		return a
	}
	return sx("ite", c, a, b)
}

func tEq(a, b Term) Term {
	if a == b {
		return tTrue
	}
	return sx("=", a, b)
}

func tSel(a, i Term) Term      { return sx("select", a, i) }
func tStore(a, i, v Term) Term { return sx("store", a, i, v) }
func tAdd(a, b Term) Term {
	if a == "0" {
		return b
	}
	if b == "0" {
		return a
	}
	return sx("+", a, b)
}
func tSub(a, b Term) Term {
	if b == "0" {
		return a
	}
	return sx("-", a, b)
}
func tLe(a, b Term) Term { return sx("<=", a, b) }
func tLt(a, b Term) Term { return sx("<", a, b) }

// smtName makes an identifier safe for SMT-LIB by quoting with |...|.
func smtName(s string) string {
	ok := true
	for _, c := range s {
		if !(c >= 'a' && c <= 'z' || c >= 'A' && c <= 'Z' || c >= '0' && c <= '9' || c == '_' || c == '$' || c == '.' || c == '@' || c == '!' || c == '#') {
			ok = false
			break
		}
	}
	if ok && len(s) > 0 && !(s[0] >= '0' && s[0] <= '9') {
		return s
	}
	s = strings.ReplaceAll(s, "|", "!")
	s = strings.ReplaceAll(s, "\\", "!")
	return "|" + s + "|"
}

const preamble = `(set-option :produce-models true)
(set-logic ALL)
(declare-datatypes ((Slice 0)) (((mk-slice (s-base Int) (s-off Int) (s-len Int) (s-cap Int)))))
(declare-datatypes ((Str 0)) (((mk-str (str-data (Array Int Int)) (str-len Int)))))
(declare-datatypes ((Iface 0)) (((mk-iface (i-typ Int) (i-val Int)))))
(declare-sort TP 0)
(declare-fun subref (Int Int) Int)
(declare-fun sub-base (Int) Int)
(declare-fun sub-idx (Int) Int)
(declare-fun chancap (Int) Int)
(declare-fun fnid (Int) Int)
(define-fun nil-iface () Iface (mk-iface 0 0))
(define-fun nil-slice () Slice (mk-slice 0 0 0 0))
`

const subrefAxiom = "(assert (forall ((r Int) (k Int)) (! (and (= (sub-base (subref r k)) r) (= (sub-idx (subref r k)) k) (< (subref r k) 0)) :pattern ((subref r k)))))\n"

// closureBindFn names the uninterpreted function "i-th captured value of a closure" for bindings of the given sort.
func closureBindFn(i int, sort string) string {
	r := strings.NewReplacer("(", "_", ")", "_", " ", "_", "$", "_", "|", "", "/", "_", ".", "_", "*", "p")
	return fmt.Sprintf("closurebind%d_%s", i, r.Replace(sort))
}
