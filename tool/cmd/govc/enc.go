package main

import (
	"fmt"
	"go/token"
	"go/types"
	"regexp"
	"sort"
	"strings"

	"golang.org/x/tools/go/ssa"
)

// Val is the symbolic value of an SSA value.
type Val struct {
	T   Term
	Tup []Val
}

// Loc is a statically known memory location (the target of a pointer value).
type Loc struct {
	Kind int // lField, lElem, lCell, lGlobal
	Heap string
	Base Term // ref
	Idx  Term // for lElem
	Typ  types.Type
}

const (
	lField = iota
	lElem
	lCell
	lGlobal
)

// State maps heap-map names (and ghost/global state) to their current SMT term.
type State struct {
	h map[string]Term
}

func (s *State) clone() *State {
	n := &State{h: make(map[string]Term, len(s.h))}
	for k, v := range s.h {
		n.h[k] = v
	}
	return n
}

type Oblig struct {
	Name    string
	Kind    string
	Fn      string
	Label   string
	Goal    Term
	Reach   Term
	NAssume int
	Pos     token.Position
	Src     string
	Detail  string
	// results
	Status string // proved | failed | unknown
	Solver string
	TimeS  float64
	Model  string
	Output string
	enc    *Enc
	group  []*Oblig
}

// Enc encodes one function.
type Enc struct {
	W      *World
	fn     *ssa.Function
	fc     *FuncContract
	pass   int
	decls  []string
	declOf map[string]string
	asm    []Term
	obls   []*Oblig
	vals   map[ssa.Value]Val
	locs   map[ssa.Value]*Loc
	nfresh int
	names  map[string]int

	heapSort  map[string]string
	heapOrder []string
	init      *State
	reach     map[*ssa.BasicBlock]Term
	exitSt    map[*ssa.BasicBlock]*State
	edgeCond  map[[2]int]Term
	cur       *State
	curReach  Term
	curBlock  *ssa.BasicBlock
	writes    map[int]map[string]bool // block index -> heap names written (pass 1 result, reused in pass 2)
	loops     map[*ssa.BasicBlock]*loopInfo
	loopOrd   map[*ssa.BasicBlock]int
	backEdges map[[2]int]bool
	callOrd   map[string]int
	kindOrd   map[string]int
	debugVars map[string][]ssa.Value // source variable name -> SSA values bound to it
	closures  map[ssa.Value]*ssa.MakeClosure
	defers    []*ssa.Defer
	ghostLoc  map[string]Val // function-level ghost variables (current value lives in state under "$g$name")
	paramVals map[string]Val
	used      map[string]bool // trusted specs / assumptions used
	unsup     []string
	bv        bool
	typeIDs   map[string]int
	failedAll string
	retOrd    int
	modItems  []frameItem
	modParsed bool

	loopWrites     map[int]map[string]bool
	implUsed       []implUse
	axioms         []Term
	finalAx        []Term
	sentinels      []Term
	atHit          map[int]bool
	returns        int
	preCond        Term
	deferIdx       map[*ssa.Defer]int
	rangeOf        map[*ssa.Range]ssa.Value
	retPoints      []retPoint
	loopCovers     []retPoint
	loopCoverNames []string
	nEntryAsm      int
	groupTail      []*Oblig
	atVars         map[string]SV
	mapRanges      map[*ssa.Range]int
	inlineStack    []*ssa.Function
	inlineRets     [][]inlineRet
	inlineDebug    []map[string][]ssa.Value
	inlineHome     *ssa.BasicBlock // block of the outermost call being inlined: writes and locals are attributed to it
	atSelect       *ssa.Select // the select statement whose at-clauses are being applied (selhas / selhassend)
	gaddrs         []Term
	privCells      []privCell
	labels         map[string]*State
	lastRelease    map[*LockDecl]*State
	lastAcquire    map[*LockDecl]*State
	atArgTypes     []types.Type
	beforeDone     bool // the `before call` at-clauses of the current call were already applied (untracked lock operation)
	atResTypes     []types.Type
	siteOrd        map[ssa.Instruction]int
	siteOrdQ       map[ssa.Instruction]int
	siteOrdF       map[ssa.Instruction]int // ordinal among the sends / receives on the channel of the same name
	curInstr       ssa.Instruction
	callLog        map[string]SV
	replayTerm     map[string]SV
}

type loopInfo struct {
	head   *ssa.BasicBlock
	blocks map[int]bool
	ord    int

	variantAtHead Term
}

func (e *Enc) fresh(prefix, sort string) Term {
	e.nfresh++
	prefix = strings.Map(func(r rune) rune {
		if r >= 'a' && r <= 'z' || r >= 'A' && r <= 'Z' || r >= '0' && r <= '9' || r == '_' || r == '$' || r == '.' {
			return r
		}
		return '_'
	}, prefix)
	n := e.names[prefix]
	e.names[prefix] = n + 1
	name := fmt.Sprintf("%s!%d", prefix, n)
	e.declare(name, sort)
	return name
}

func (e *Enc) declare(name, sort string) {
	if _, ok := e.declOf[name]; ok {
		return
	}
	e.declOf[name] = sort
	e.decls = append(e.decls, fmt.Sprintf("(declare-const %s %s)", name, sort))
}

func (e *Enc) declareFun(name string, args []string, ret string) {
	if _, ok := e.declOf[name]; ok {
		return
	}
	e.declOf[name] = "fun"
	e.decls = append(e.decls, fmt.Sprintf("(declare-fun %s (%s) %s)", name, strings.Join(args, " "), ret))
}

func (e *Enc) rawDecl(key, text string) {
	if _, ok := e.declOf[key]; ok {
		return
	}
	e.declOf[key] = "raw"
	e.decls = append(e.decls, text)
}

// assume adds a fact guarded by the current reachability predicate.
func (e *Enc) assume(t Term) {
	if t == tTrue {
		return
	}
	e.asm = append(e.asm, tImp(e.curReach, t))
}

// assumeG adds an unguarded fact (definitions).
func (e *Enc) assumeG(t Term) {
	if t == tTrue {
		return
	}
	e.asm = append(e.asm, t)
}

// define introduces a named constant equal to term (keeps queries small and readable).
func (e *Enc) define(prefix, sort string, t Term) Term {
	if len(t) < 48 {
		return t
	}
	c := e.fresh(prefix, sort)
	e.assumeG(tEq(c, t))
	return c
}

func (e *Enc) oblige(kind, name string, goal Term, pos token.Pos, src string) *Oblig {
	// conjunctive goals are split into one obligation per conjunct (smaller queries, sharper reports)
	if strings.HasPrefix(goal, "(and ") {
		if n := parseSx(goal); n != nil && n.head() == "and" && len(n.kids) > 2 {
			var first *Oblig
			for i, k := range n.kids[1:] {
				o := e.oblige1(kind, fmt.Sprintf("%s/%d", name, i), k.String(), pos, src)
				if first == nil {
					first = o
				}
				e.groupTail = append(e.groupTail, o)
			}
			return &Oblig{group: e.takeGroup()}
		}
	}
	// (=> a (and b c ...)) splits the same way
	if strings.HasPrefix(goal, "(=> ") {
		if n := parseSx(goal); n != nil && n.head() == "=>" && len(n.kids) == 3 && n.kids[2].head() == "and" && len(n.kids[2].kids) > 2 {
			for i, k := range n.kids[2].kids[1:] {
				o := e.oblige1(kind, fmt.Sprintf("%s/%d", name, i), tImp(n.kids[1].String(), k.String()), pos, src)
				e.groupTail = append(e.groupTail, o)
			}
			return &Oblig{group: e.takeGroup()}
		}
	}
	return e.oblige1(kind, name, goal, pos, src)
}

func (e *Enc) takeGroup() []*Oblig {
	g := e.groupTail
	e.groupTail = nil
	return g
}

func (e *Enc) oblige1(kind, name string, goal Term, pos token.Pos, src string) *Oblig {
	o := &Oblig{Name: name, Kind: kind, Fn: e.fn.String(), Goal: goal, Reach: e.curReach, NAssume: len(e.asm), Src: src, enc: e}
	if pos.IsValid() {
		o.Pos = e.W.fset.Position(pos)
	}
	if goal == tTrue {
		o.Status = "proved"
		o.Solver = "trivial"
	}
	e.obls = append(e.obls, o)
	// after the check, execution continues only if the goal held
	e.assume(goal)
	return o
}

// setMeta sets label/position on an obligation or on every member of a split group.
func (o *Oblig) setMeta(label string, pos token.Position) {
	if o.group != nil {
		for _, m := range o.group {
			m.Label = label
			m.Pos = pos
		}
		return
	}
	o.Label = label
	o.Pos = pos
}

func (e *Enc) ordName(kind string) string {
	n := e.kindOrd[kind]
	e.kindOrd[kind] = n + 1
	return fmt.Sprintf("%s#%d", kind, n)
}

func (e *Enc) unsupported(what string) {
	e.unsup = append(e.unsup, what)
	if e.pass == 2 {
		// a construct outside the modelled subset is over-approximated by havoc, which proves nothing about what the
		// construct itself may write or whether it panics: it is an undischarged obligation, not a footnote
		e.oblige("unsupported", e.ordName("unsupported"), tFalse, token.NoPos, "construct outside the verified subset: "+what)
	}
}

// ---------- heap access ----------

func (e *Enc) heapDecl(name, sort string) {
	if _, ok := e.heapSort[name]; !ok {
		e.heapSort[name] = sort
		e.heapOrder = append(e.heapOrder, name)
		e.declare(smtName(name+"@0"), sort)
		if e.init != nil {
			if _, ok := e.init.h[name]; !ok {
				e.init.h[name] = smtName(name + "@0")
			}
		}
	}
}

func (e *Enc) hget(s *State, name, sort string) Term {
	e.heapDecl(name, sort)
	if t, ok := s.h[name]; ok {
		return t
	}
	return smtName(name + "@0")
}

func (e *Enc) hset(s *State, name, sort string, t Term) {
	e.heapDecl(name, sort)
	t = e.define(name, sort, t)
	s.h[name] = t
	e.noteWrite(name)
}

func (e *Enc) noteWrite(name string) {
	blk := e.curBlock
	if e.inlineHome != nil {
		blk = e.inlineHome
	}
	if blk == nil {
		return
	}
	m := e.writes[blk.Index]
	if m == nil {
		m = map[string]bool{}
		e.writes[blk.Index] = m
	}
	m[name] = true
}

func (e *Enc) alloc(s *State) Term { return e.hget(s, "$alloc", "Int") }

// newRef allocates a fresh reference.
func (e *Enc) newRef(s *State, hint string) Term {
	a := e.alloc(s)
	r := e.fresh("ref_"+hint, "Int")
	e.assumeG(tEq(r, a))
	e.hset(s, "$alloc", "Int", tAdd(r, "1"))
	return r
}

// ---------- sorts ----------

func isTypeParam(t types.Type) bool {
	_, ok := t.(*types.TypeParam)
	return ok
}

// isIntTypeParam: a type parameter whose type set contains only integer types (e.g. constraints.Integer).
// Values are mathematical integers of unknown width; arithmetic on them is uninterpreted (tpadd, …).
func isIntTypeParam(t types.Type) bool {
	tp, ok := t.(*types.TypeParam)
	if !ok {
		return false
	}
	iface, ok := tp.Constraint().Underlying().(*types.Interface)
	if !ok {
		return false
	}
	return allIntegerTerms(iface, 0)
}

func allIntegerTerms(iface *types.Interface, depth int) bool {
	if depth > 5 || iface.NumEmbeddeds() == 0 {
		return false
	}
	for i := 0; i < iface.NumEmbeddeds(); i++ {
		switch u := iface.EmbeddedType(i).(type) {
		case *types.Union:
			for j := 0; j < u.Len(); j++ {
				tt := u.Term(j).Type()
				if in, ok := tt.Underlying().(*types.Interface); ok {
					if !allIntegerTerms(in, depth+1) {
						return false
					}
					continue
				}
				if !isInteger(tt) {
					return false
				}
			}
		case *types.Named, *types.Alias:
			in, ok := u.Underlying().(*types.Interface)
			if !ok || !allIntegerTerms(in, depth+1) {
				return false
			}
		default:
			if !isInteger(u) {
				return false
			}
		}
	}
	return true
}

func (e *Enc) sortOf(t types.Type) string {
	if isIntTypeParam(t) {
		return "Int"
	}
	if isTypeParam(t) {
		return "TP"
	}
	switch u := t.Underlying().(type) {
	case *types.Basic:
		switch {
		case u.Info()&types.IsBoolean != 0:
			return "Bool"
		case u.Info()&types.IsInteger != 0:
			if e.bv {
				return fmt.Sprintf("(_ BitVec %d)", intBits(u))
			}
			return "Int"
		case u.Info()&types.IsString != 0:
			return "Str"
		case u.Info()&types.IsFloat != 0, u.Info()&types.IsComplex != 0:
			return "Real"
		case u.Kind() == types.UnsafePointer:
			return "Int"
		case u.Kind() == types.UntypedNil:
			return "Int"
		}
		return "Int"
	case *types.Slice:
		return "Slice"
	case *types.Pointer, *types.Map, *types.Chan, *types.Signature:
		return "Int"
	case *types.Interface:
		return "Iface"
	case *types.Struct:
		return e.structSort(t, u)
	case *types.Array:
		return fmt.Sprintf("(Array Int %s)", e.sortOf(u.Elem()))
	case *types.Tuple:
		return "TUPLE"
	}
	return "Int"
}

func intBits(b *types.Basic) int {
	switch b.Kind() {
	case types.Int8, types.Uint8:
		return 8
	case types.Int16, types.Uint16:
		return 16
	case types.Int32, types.Uint32:
		return 32
	}
	return 64
}

var aliasRe = regexp.MustCompile(`\b(byte|rune)\b`)

// typeKey is the canonical name of a type (byte and rune are spelled uint8 and int32, so that []byte and
// []uint8 share one element heap).
func typeKey(t types.Type) string {
	s := types.TypeString(t, nil)
	if strings.Contains(s, "byte") || strings.Contains(s, "rune") {
		s = aliasRe.ReplaceAllStringFunc(s, func(m string) string {
			if m == "byte" {
				return "uint8"
			}
			return "int32"
		})
	}
	return s
}

func (e *Enc) structSort(t types.Type, st *types.Struct) string {
	key := "S$" + typeKey(t)
	name := smtName(key)
	if _, ok := e.declOf["sort:"+key]; ok {
		return name
	}
	e.declOf["sort:"+key] = "sort"
	if st.NumFields() == 0 {
		e.decls = append(e.decls, fmt.Sprintf("(declare-datatypes ((%s 0)) (((%s))))", name, smtName("mk$"+key)))
		return name
	}
	var fs []string
	for i := 0; i < st.NumFields(); i++ {
		fs = append(fs, fmt.Sprintf("(%s %s)", smtName(fmt.Sprintf("%s$%d", key, i)), e.sortOf(st.Field(i).Type())))
	}
	e.decls = append(e.decls, fmt.Sprintf("(declare-datatypes ((%s 0)) (((%s %s))))", name, smtName("mk$"+key), strings.Join(fs, " ")))
	return name
}

func (e *Enc) structMk(t types.Type) string { return smtName("mk$S$" + typeKey(t)) }
func (e *Enc) structSel(t types.Type, i int) string {
	return smtName(fmt.Sprintf("S$%s$%d", typeKey(t), i))
}

// fieldHeap is the heap-map name of field i of (named) struct type t.
func fieldHeap(t types.Type, i int) string {
	st := t.Underlying().(*types.Struct)
	return "F$" + typeKey(stripTypeArgs(t)) + "." + st.Field(i).Name()
}

func stripTypeArgs(t types.Type) types.Type {
	if n, ok := t.(*types.Named); ok && n.TypeArgs() != nil && n.TypeArgs().Len() > 0 {
		return n.Origin()
	}
	return t
}

func elemHeap(elem types.Type) string {
	if isIntTypeParam(elem) {
		return "E$TPint"
	}
	if isTypeParam(elem) {
		return "E$TP"
	}
	return "E$" + typeKey(elem.Underlying())
}

func cellHeap(t types.Type) string {
	if isIntTypeParam(t) {
		return "C$TPint"
	}
	if isTypeParam(t) {
		return "C$TP"
	}
	return "C$" + typeKey(t.Underlying())
}

func (e *Enc) zeroOf(t types.Type) Term {
	if isIntTypeParam(t) {
		return "0"
	}
	if isTypeParam(t) {
		e.declare("zero-TP", "TP")
		return "zero-TP"
	}
	switch u := t.Underlying().(type) {
	case *types.Basic:
		switch {
		case u.Info()&types.IsBoolean != 0:
			return tFalse
		case u.Info()&types.IsInteger != 0:
			if e.bv {
				return fmt.Sprintf("(_ bv0 %d)", intBits(u))
			}
			return "0"
		case u.Info()&types.IsString != 0:
			return "(mk-str ((as const (Array Int Int)) 0) 0)"
		case u.Info()&types.IsFloat != 0, u.Info()&types.IsComplex != 0:
			return "0.0"
		}
		return "0"
	case *types.Slice:
		return "(mk-slice 0 0 0 0)"
	case *types.Interface:
		return "(mk-iface 0 0)"
	case *types.Struct:
		if u.NumFields() == 0 {
			e.sortOf(t)
			return e.structMk(t)
		}
		var fs []Term
		for i := 0; i < u.NumFields(); i++ {
			fs = append(fs, e.zeroOf(u.Field(i).Type()))
		}
		e.sortOf(t)
		return sx(e.structMk(t), fs...)
	case *types.Array:
		return fmt.Sprintf("((as const %s) %s)", e.sortOf(t), e.zeroOf(u.Elem()))
	}
	return "0"
}

// intRange returns the bounds of an integer type.
func intRange(t types.Type) (lo, hi string, ok bool) {
	b, isB := t.Underlying().(*types.Basic)
	if !isB || b.Info()&types.IsInteger == 0 {
		return "", "", false
	}
	switch b.Kind() {
	case types.Int8:
		return "(- 128)", "127", true
	case types.Int16:
		return "(- 32768)", "32767", true
	case types.Int32:
		return "(- 2147483648)", "2147483647", true
	case types.Int, types.Int64, types.UntypedInt:
		return "(- 9223372036854775808)", "9223372036854775807", true
	case types.Uint8:
		return "0", "255", true
	case types.Uint16:
		return "0", "65535", true
	case types.Uint32:
		return "0", "4294967295", true
	case types.Uint, types.Uint64, types.Uintptr:
		return "0", "18446744073709551615", true
	}
	return "", "", false
}

func inRange(t types.Type, x Term) Term {
	lo, hi, ok := intRange(t)
	if !ok {
		return tTrue
	}
	return tAnd(tLe(lo, x), tLe(x, hi))
}

// typeFacts returns well-formedness facts assumed of any value of Go type t that comes from outside
// (parameters, loads, call results).
func (e *Enc) typeFacts(x Term, t types.Type, s *State) Term {
	if isTypeParam(t) {
		return tTrue
	}
	switch u := t.Underlying().(type) {
	case *types.Basic:
		if u.Info()&types.IsInteger != 0 {
			if e.bv {
				return tTrue
			}
			return inRange(t, x)
		}
		if u.Info()&types.IsString != 0 {
			return e.strWF(x)
		}
	case *types.Slice:
		b, o, l, c := sx("s-base", x), sx("s-off", x), sx("s-len", x), sx("s-cap", x)
		return tAnd(tLe("0", b), tLt(b, e.alloc(s)), tLe("0", o), tLe("0", l), tLe(l, c),
			tLe(c, maxLenBound),
			tImp(tEq(b, "0"), tAnd(tEq(c, "0"), tEq(o, "0"))))
	case *types.Pointer:
		return tLt(x, e.alloc(s))
	case *types.Map, *types.Chan:
		return tAnd(tLe("0", x), tLt(x, e.alloc(s)))
	case *types.Interface:
		return tAnd(tLe("0", sx("i-typ", x)), tImp(tEq(sx("i-typ", x), "0"), tEq(sx("i-val", x), "0")), tLt(sx("i-val", x), e.alloc(s)))
	case *types.Struct:
		var fs []Term
		for i := 0; i < u.NumFields(); i++ {
			fs = append(fs, e.typeFacts(sx(e.structSel(t, i), x), u.Field(i).Type(), s))
		}
		return tAnd(fs...)
	}
	return tTrue
}

func (e *Enc) strWF(x Term) Term {
	return tAnd(tLe("0", sx("str-len", x)), tLe(sx("str-len", x), maxLenBound),
		fmt.Sprintf("(forall ((i!s Int)) (! (=> (or (< i!s 0) (>= i!s (str-len %s))) (= (select (str-data %s) i!s) 0)) :pattern ((select (str-data %s) i!s))))", x, x, x),
		fmt.Sprintf("(forall ((i!s Int)) (! (and (<= 0 (select (str-data %s) i!s)) (<= (select (str-data %s) i!s) 255)) :pattern ((select (str-data %s) i!s))))", x, x, x))
}

func (e *Enc) strConst(s string) Term {
	arr := "((as const (Array Int Int)) 0)"
	for i := 0; i < len(s); i++ {
		if s[i] != 0 {
			arr = tStore(arr, tInt(int64(i)), tInt(int64(s[i])))
		}
	}
	t := fmt.Sprintf("(mk-str %s %d)", arr, len(s))
	if len(s) > 3 {
		key := "strconst:" + s
		if n, ok := e.declOf[key]; ok {
			return n
		}
		c := e.fresh("str", "Str")
		e.declOf[key] = c
		e.assumeG(tEq(c, t))
		return c
	}
	return t
}

// ---------- locations ----------

// ptrLoc computes the location designated by pointer value v.
func (e *Enc) ptrLoc(v ssa.Value) *Loc {
	if _, isGlobal := v.(*ssa.Global); isGlobal {
		e.val(v) // registers the global's location
	}
	if l, ok := e.locs[v]; ok {
		return l
	}
	pt, ok := v.Type().Underlying().(*types.Pointer)
	if !ok {
		return nil
	}
	ref := e.val(v).T
	return e.refLoc(ref, pt.Elem())
}

// refLoc: location of the whole object of type elem at reference ref.
func (e *Enc) refLoc(ref Term, elem types.Type) *Loc {
	if isTypeParam(elem) {
		return &Loc{Kind: lCell, Heap: cellHeap(elem), Base: ref, Typ: elem}
	}
	switch elem.Underlying().(type) {
	case *types.Struct:
		return &Loc{Kind: lField, Heap: "", Base: ref, Typ: elem} // whole struct
	case *types.Array:
		return &Loc{Kind: lElem, Heap: "", Base: ref, Typ: elem} // whole array
	}
	return &Loc{Kind: lCell, Heap: cellHeap(elem), Base: ref, Typ: elem}
}

func (e *Enc) load(s *State, l *Loc) Term {
	t := l.Typ
	switch l.Kind {
	case lGlobal:
		if _, seen := e.declOf["gfacts:"+l.Heap]; !seen {
			// a package-level variable existed before the call: its entry value is well-formed w.r.t. $alloc@0
			e.declOf["gfacts:"+l.Heap] = "1"
			e.heapDecl(l.Heap, e.sortOf(t))
			e.assumeGFront(e.typeFacts(smtName(l.Heap+"@0"), t, e.init))
		}
		return e.hget(s, l.Heap, e.sortOf(t))
	case lCell:
		return tSel(e.hget(s, l.Heap, fmt.Sprintf("(Array Int %s)", e.sortOf(t))), l.Base)
	case lElem:
		if l.Heap == "" { // whole array value
			at := t.Underlying().(*types.Array)
			h := elemHeap(at.Elem())
			return tSel(e.hget(s, h, fmt.Sprintf("(Array Int (Array Int %s))", e.sortOf(at.Elem()))), l.Base)
		}
		return tSel(tSel(e.hget(s, l.Heap, fmt.Sprintf("(Array Int (Array Int %s))", e.sortOf(t))), l.Base), l.Idx)
	case lField:
		if l.Heap == "" { // whole struct value
			st := t.Underlying().(*types.Struct)
			e.sortOf(t)
			if st.NumFields() == 0 {
				return e.structMk(t)
			}
			var fs []Term
			for i := 0; i < st.NumFields(); i++ {
				fs = append(fs, e.load(s, e.fieldLoc(l.Base, t, i)))
			}
			return sx(e.structMk(t), fs...)
		}
		return tSel(e.hget(s, l.Heap, fmt.Sprintf("(Array Int %s)", e.sortOf(t))), l.Base)
	}
	panic("load: bad loc")
}

// fieldLoc: location of field i of the struct of type st at ref base.
func (e *Enc) fieldLoc(base Term, st types.Type, i int) *Loc {
	ft := st.Underlying().(*types.Struct).Field(i).Type()
	if _, isStruct := ft.Underlying().(*types.Struct); isStruct && !isTypeParam(ft) {
		return &Loc{Kind: lField, Heap: "", Base: sx("subref", base, tInt(int64(i))), Typ: ft}
	}
	if _, isArr := ft.Underlying().(*types.Array); isArr && !isTypeParam(ft) {
		return &Loc{Kind: lElem, Heap: "", Base: sx("subref", base, tInt(int64(i))), Typ: ft}
	}
	return &Loc{Kind: lField, Heap: fieldHeap(st, i), Base: base, Typ: ft}
}

func (e *Enc) store(s *State, l *Loc, v Term) {
	t := l.Typ
	switch l.Kind {
	case lGlobal:
		e.hset(s, l.Heap, e.sortOf(t), v)
	case lCell:
		srt := fmt.Sprintf("(Array Int %s)", e.sortOf(t))
		e.hset(s, l.Heap, srt, tStore(e.hget(s, l.Heap, srt), l.Base, v))
	case lElem:
		if l.Heap == "" {
			at := t.Underlying().(*types.Array)
			h := elemHeap(at.Elem())
			srt := fmt.Sprintf("(Array Int (Array Int %s))", e.sortOf(at.Elem()))
			e.hset(s, h, srt, tStore(e.hget(s, h, srt), l.Base, v))
			return
		}
		srt := fmt.Sprintf("(Array Int (Array Int %s))", e.sortOf(t))
		H := e.hget(s, l.Heap, srt)
		e.hset(s, l.Heap, srt, tStore(H, l.Base, tStore(tSel(H, l.Base), l.Idx, v)))
	case lField:
		if l.Heap == "" {
			st := t.Underlying().(*types.Struct)
			for i := 0; i < st.NumFields(); i++ {
				e.store(s, e.fieldLoc(l.Base, t, i), sx(e.structSel(t, i), v))
			}
			return
		}
		srt := fmt.Sprintf("(Array Int %s)", e.sortOf(t))
		e.hset(s, l.Heap, srt, tStore(e.hget(s, l.Heap, srt), l.Base, v))
	}
}

// ---------- values ----------

func (e *Enc) val(v ssa.Value) Val {
	if x, ok := e.vals[v]; ok {
		return x
	}
	switch v := v.(type) {
	case *ssa.Const:
		return Val{T: e.constTerm(v)}
	case *ssa.Global:
		// address of a global: reference identity is a fixed negative-free symbolic constant
		name := "gaddr$" + v.String()
		e.declareGaddr(smtName(name))
		e.locs[v] = e.globalLoc(v)
		x := Val{T: smtName(name)}
		e.vals[v] = x
		return x
	case *ssa.Function:
		name := "fn$" + v.String()
		e.declare(smtName(name), "Int")
		x := Val{T: smtName(name)}
		e.assumeG(tEq(sx("fnid", x.T), tInt(int64(e.W.typeIDByName("fn:"+normalizeFnKey(v.String()))))))
		e.vals[v] = x
		return x
	case *ssa.Builtin:
		return Val{T: "0"}
	case *ssa.Parameter, *ssa.FreeVar:
		panic("parameter not bound: " + v.Name())
	}
	panic(fmt.Sprintf("value not defined: %s = %s (%T) in %s", v.Name(), v.String(), v, e.fn))
}

func (e *Enc) globalLoc(g *ssa.Global) *Loc {
	elem := g.Type().(*types.Pointer).Elem()
	name := "G$" + g.String()
	switch elem.Underlying().(type) {
	case *types.Struct, *types.Array:
		if !isTypeParam(elem) {
			ref := smtName("gaddr$" + g.String())
			e.declareGaddr(ref)
			return e.refLoc(ref, elem)
		}
	}
	return &Loc{Kind: lGlobal, Heap: name, Typ: elem}
}

func (e *Enc) constTerm(c *ssa.Const) Term {
	t := c.Type()
	if c.Value == nil {
		return e.zeroOf(t)
	}
	if isTypeParam(t) {
		return e.zeroOf(t)
	}
	switch u := t.Underlying().(type) {
	case *types.Basic:
		switch {
		case u.Info()&types.IsBoolean != 0:
			if c.Value.String() == "true" {
				return tTrue
			}
			return tFalse
		case u.Info()&types.IsInteger != 0:
			if e.bv {
				bits := intBits(u)
				if u.Info()&types.IsUnsigned != 0 {
					return fmt.Sprintf("(_ bv%d %d)", c.Uint64(), bits)
				}
				x := c.Int64()
				if x >= 0 {
					return fmt.Sprintf("(_ bv%d %d)", x, bits)
				}
				return fmt.Sprintf("(bvneg (_ bv%d %d))", -x, bits)
			}
			return tIntS(c.Value.ExactString())
		case u.Info()&types.IsString != 0:
			return e.strConst(constString(c))
		case u.Info()&types.IsFloat != 0:
			f := c.Float64()
			s := fmt.Sprintf("%f", f)
			if strings.HasPrefix(s, "-") {
				return "(- " + s[1:] + ")"
			}
			return s
		}
	}
	return e.zeroOf(t)
}

func constString(c *ssa.Const) string {
	s := c.Value.ExactString()
	// ExactString is a quoted Go string
	if u, err := unquoteGo(s); err == nil {
		return u
	}
	return s
}

// ---------- CFG analysis ----------

func (e *Enc) analyseCFG() {
	f := e.fn
	e.loops = map[*ssa.BasicBlock]*loopInfo{}
	e.backEdges = map[[2]int]bool{}
	for _, b := range f.Blocks {
		for _, s := range b.Succs {
			if s.Dominates(b) {
				e.backEdges[[2]int{b.Index, s.Index}] = true
				li := e.loops[s]
				if li == nil {
					li = &loopInfo{head: s, blocks: map[int]bool{s.Index: true}}
					e.loops[s] = li
				}
				// natural loop of back edge b->s
				stack := []*ssa.BasicBlock{b}
				for len(stack) > 0 {
					x := stack[len(stack)-1]
					stack = stack[:len(stack)-1]
					if li.blocks[x.Index] {
						continue
					}
					li.blocks[x.Index] = true
					stack = append(stack, x.Preds...)
				}
			}
		}
	}
	// loop ordinals: by source position of the loop header's first positioned instruction
	var heads []*ssa.BasicBlock
	for h := range e.loops {
		heads = append(heads, h)
	}
	sort.Slice(heads, func(i, j int) bool {
		pi, pj := e.loopPos(heads[i]), e.loopPos(heads[j])
		if pi != pj {
			return pi < pj
		}
		// same first position: the enclosing (larger) loop comes first
		if ni, nj := len(e.loops[heads[i]].blocks), len(e.loops[heads[j]].blocks); ni != nj {
			return ni > nj
		}
		return heads[i].Index < heads[j].Index
	})
	e.loopOrd = map[*ssa.BasicBlock]int{}
	for i, h := range heads {
		e.loopOrd[h] = i
		e.loops[h].ord = i
	}
}

// loopPos finds a source position representative of the loop (minimum position over the loop's blocks).
func (e *Enc) loopPos(h *ssa.BasicBlock) token.Pos {
	li := e.loops[h]
	var best token.Pos
	for bi := range li.blocks {
		for _, in := range e.fn.Blocks[bi].Instrs {
			p := in.Pos()
			if d, ok := in.(*ssa.DebugRef); ok {
				p = d.Expr.Pos()
			}
			if p.IsValid() && (best == 0 || p < best) {
				best = p
			}
		}
	}
	return best
}

// topo returns blocks in a topological order of the CFG without back edges.
func (e *Enc) topo() []*ssa.BasicBlock {
	f := e.fn
	indeg := make([]int, len(f.Blocks))
	for _, b := range f.Blocks {
		for _, s := range b.Succs {
			if !e.backEdges[[2]int{b.Index, s.Index}] {
				indeg[s.Index]++
			}
		}
	}
	var order []*ssa.BasicBlock
	var ready []*ssa.BasicBlock
	for _, b := range f.Blocks {
		if indeg[b.Index] == 0 && (b.Index == 0 || b == f.Recover) {
			ready = append(ready, b)
		}
	}
	seen := map[int]bool{}
	for len(ready) > 0 {
		// pick the lowest index for determinism
		sort.Slice(ready, func(i, j int) bool { return ready[i].Index < ready[j].Index })
		b := ready[0]
		ready = ready[1:]
		if seen[b.Index] {
			continue
		}
		seen[b.Index] = true
		order = append(order, b)
		for _, s := range b.Succs {
			if e.backEdges[[2]int{b.Index, s.Index}] {
				continue
			}
			indeg[s.Index]--
			if indeg[s.Index] == 0 {
				ready = append(ready, s)
			}
		}
	}
	return order
}

// maxLenBound: no slice or string is longer than the address space allows (2^56 elements); assumed of every
// slice/string value that enters a function. Listed in the trusted base.
const maxLenBound = "72057594037927936"

func (o *Oblig) setLabel(label string) {
	if o.group != nil {
		for _, m := range o.group {
			m.Label = label
		}
		return
	}
	o.Label = label
}

// declareGaddr declares the address of a package-level variable: non-nil, allocated before entry, distinct
// from the addresses of other package-level variables.
func (e *Enc) declareGaddr(name string) {
	if _, ok := e.declOf[name]; ok {
		return
	}
	e.declare(name, "Int")
	e.assumeGFront(tAnd(tLt("0", name), tLt(name, smtName("$alloc@0"))))
	for _, o := range e.gaddrs {
		e.assumeGFront(tNot(tEq(name, o)))
	}
	e.gaddrs = append(e.gaddrs, name)
}
