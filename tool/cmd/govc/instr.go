package main

import (
	"fmt"
	"go/token"
	"go/types"

	"golang.org/x/tools/go/ssa"
)

func (e *Enc) setVal(v ssa.Value, t Term) {
	srt := e.sortOf(v.Type())
	if srt != "TUPLE" {
		t = e.define("v_"+v.Name(), srt, t)
	}
	e.vals[v] = Val{T: t}
}

func (e *Enc) havocVal(v ssa.Value, hint string) Term {
	c := e.fresh(hint+"_"+v.Name(), e.sortOf(v.Type()))
	e.vals[v] = Val{T: c}
	e.assume(e.typeFacts(c, v.Type(), e.cur))
	return c
}

func isUnsigned(t types.Type) bool {
	b, ok := t.Underlying().(*types.Basic)
	return ok && b.Info()&types.IsUnsigned != 0
}
func isInteger(t types.Type) bool {
	b, ok := t.Underlying().(*types.Basic)
	return ok && b.Info()&types.IsInteger != 0
}
func isString(t types.Type) bool {
	b, ok := t.Underlying().(*types.Basic)
	return ok && b.Info()&types.IsString != 0
}
func isFloat(t types.Type) bool {
	b, ok := t.Underlying().(*types.Basic)
	return ok && b.Info()&(types.IsFloat|types.IsComplex) != 0
}
func isBool(t types.Type) bool {
	b, ok := t.Underlying().(*types.Basic)
	return ok && b.Info()&types.IsBoolean != 0
}

// wrap gives the Go result of a mathematical integer result x of type t: x when in range, otherwise an
// unconstrained in-range value (sound over-approximation of wrap-around; no mod).
func (e *Enc) wrap(x Term, t types.Type, hint string) Term {
	lo, hi, ok := intRange(t)
	if !ok {
		return x
	}
	x = e.define("m_"+hint, "Int", x)
	w := e.fresh("wrap_"+hint, "Int")
	e.assumeG(tAnd(tLe(lo, w), tLe(w, hi)))
	return tIte(tAnd(tLe(lo, x), tLe(x, hi)), x, w)
}

func (e *Enc) exec(in ssa.Instruction) {
	switch in := in.(type) {
	case *ssa.DebugRef:
		return
	case *ssa.Alloc:
		e.execAlloc(in)
	case *ssa.BinOp:
		e.execBinOp(in)
	case *ssa.UnOp:
		e.execUnOp(in)
	case *ssa.Call:
		e.execCall(in, in.Common(), in, tTrue)
	case *ssa.ChangeInterface:
		e.vals[in] = e.val(in.X)
	case *ssa.ChangeType:
		e.vals[in] = e.val(in.X)
		if l, ok := e.locs[in.X]; ok {
			e.locs[in] = l
		}
	case *ssa.Convert:
		e.execConvert(in)
	case *ssa.MultiConvert:
		e.havocVal(in, "mconv")
	case *ssa.Extract:
		tv := e.val(in.Tuple)
		if in.Index < len(tv.Tup) {
			e.vals[in] = tv.Tup[in.Index]
		} else {
			e.havocVal(in, "extract")
		}
	case *ssa.Field:
		x := e.val(in.X).T
		e.setVal(in, sx(e.structSelOf(in.X.Type(), in.Field), x))
	case *ssa.FieldAddr:
		e.execFieldAddr(in)
	case *ssa.Index:
		e.execIndex(in)
	case *ssa.IndexAddr:
		e.execIndexAddr(in)
	case *ssa.Lookup:
		e.execLookup(in)
	case *ssa.MakeInterface:
		e.execMakeInterface(in)
	case *ssa.MakeClosure:
		e.closures[in] = in
		c := e.fresh("closure_"+in.Name(), "Int")
		e.assumeG(tLt("0", c))
		if f, ok := in.Fn.(*ssa.Function); ok {
			// which function the closure runs (isfunc(x, "name") in specs)
			e.assumeG(tEq(sx("fnid", c), tInt(int64(e.W.typeIDByName("fn:"+normalizeFnKey(f.String()))))))
		}
		// what the closure captured: bound(x, i, "type") in specs (for a bound method value x.M, binding 0 is x)
		for i, b := range in.Bindings {
			srt := e.sortOf(b.Type())
			fn := closureBindFn(i, srt)
			e.declareFun(fn, []string{"Int"}, srt)
			e.assume(tEq(sx(fn, c), e.val(b).T))
		}
		e.vals[in] = Val{T: c}
	case *ssa.MakeMap:
		e.execMakeMap(in)
	case *ssa.MakeChan:
		sz := e.val(in.Size).T
		e.oblige("make", e.ordName("make"), tLe("0", sz), in.Pos(), "makechan: size out of range")
		r := e.newRef(e.cur, "chan")
		e.assume(tEq(sx("chancap", r), sz))
		e.vals[in] = Val{T: r}
	case *ssa.MakeSlice:
		e.execMakeSlice(in)
	case *ssa.MapUpdate:
		e.execMapUpdate(in)
	case *ssa.Slice:
		e.execSlice(in)
	case *ssa.SliceToArrayPointer:
		x := e.val(in.X).T
		at := in.Type().Underlying().(*types.Pointer).Elem().Underlying().(*types.Array)
		e.oblige("conv", e.ordName("conv"), tLe(tInt(at.Len()), sx("s-len", x)), in.Pos(), "slice to array pointer")
		if e.pass == 2 {
			e.unsupported("SliceToArrayPointer with offset")
		}
		e.vals[in] = Val{T: sx("s-base", x)}
	case *ssa.Store:
		e.execStore(in)
	case *ssa.TypeAssert:
		e.execTypeAssert(in)
	case *ssa.Range:
		e.execRange(in)
	case *ssa.Next:
		e.execNext(in)
	case *ssa.Select:
		e.execSelect(in)
	case *ssa.Send:
		e.sentClauses(in.X.Type(), e.val(in.X).T, true, in.Pos())
		sa := []Val{e.val(in.Chan), e.val(in.X)}
		e.atArgTypes = []types.Type{in.Chan.Type(), in.X.Type()}
		e.applyAts("before send", "", in.Pos(), sa, nil)
		e.applyAts("send", "", in.Pos(), sa, nil)
		e.atArgTypes = nil
	case *ssa.Go:
		e.execGo(in)
	case *ssa.Defer:
		e.execDefer(in)
	case *ssa.RunDefers:
		e.execRunDefers(in)
	case *ssa.If, *ssa.Jump:
		e.backEdgeChecks(e.curBlock)
	case *ssa.Return:
		e.execReturn(in)
	case *ssa.Panic:
		e.execPanic(in)
	default:
		if v, ok := in.(ssa.Value); ok {
			e.havocVal(v, "unk")
		}
		e.unsupported(fmt.Sprintf("instruction %T", in))
	}
}

func (e *Enc) structSelOf(t types.Type, field int) string {
	e.sortOf(t)
	return e.structSel(t, field)
}

func (e *Enc) execAlloc(in *ssa.Alloc) {
	elem := in.Type().(*types.Pointer).Elem()
	hint := in.Comment
	if hint == "" {
		hint = in.Name()
	}
	r := e.newRef(e.cur, hint)
	e.vals[in] = Val{T: r}
	l := e.refLoc(r, elem)
	e.locs[in] = l
	e.store(e.cur, l, e.zeroOf(elem))
	if l.Kind == lCell && isPrivateAlloc(in) {
		e.privCells = append(e.privCells, privCell{heap: l.Heap, sort: fmt.Sprintf("(Array Int %s)", e.sortOf(elem)), ref: r})
	}
}

func (e *Enc) execFieldAddr(in *ssa.FieldAddr) {
	x := e.val(in.X).T
	st := in.X.Type().Underlying().(*types.Pointer).Elem()
	e.nilCheck(x, in.Pos(), "field address of nil pointer")
	l := e.fieldLoc(x, st, in.Field)
	e.locs[in] = l
	if l.Heap == "" {
		e.vals[in] = Val{T: l.Base}
	} else {
		e.vals[in] = Val{T: sx("subref", x, tInt(int64(in.Field)))}
	}
}

func (e *Enc) nilCheck(ref Term, pos token.Pos, what string) {
	e.oblige("nil", e.ordName("nil"), tNot(tEq(ref, "0")), pos, what)
}

func (e *Enc) execIndexAddr(in *ssa.IndexAddr) {
	x := e.val(in.X).T
	i := e.toInt(e.val(in.Index).T, in.Index.Type())
	switch u := in.X.Type().Underlying().(type) {
	case *types.Slice:
		e.oblige("idx", e.ordName("idx"), tAnd(tLe("0", i), tLt(i, sx("s-len", x))), in.Pos(), "index in range")
		l := &Loc{Kind: lElem, Heap: elemHeap(u.Elem()), Base: sx("s-base", x), Idx: tAdd(sx("s-off", x), i), Typ: u.Elem()}
		e.setElemLoc(in, l)
	case *types.Pointer:
		at := u.Elem().Underlying().(*types.Array)
		e.nilCheck(x, in.Pos(), "index of nil array pointer")
		e.oblige("idx", e.ordName("idx"), tAnd(tLe("0", i), tLt(i, tInt(at.Len()))), in.Pos(), "index in range")
		l := &Loc{Kind: lElem, Heap: elemHeap(at.Elem()), Base: x, Idx: i, Typ: at.Elem()}
		e.setElemLoc(in, l)
	default:
		e.havocVal(in, "idxaddr")
		e.unsupported("IndexAddr on " + in.X.Type().String())
	}
}

func (e *Enc) setElemLoc(in *ssa.IndexAddr, l *Loc) {
	// element that is itself a struct or array: model as sub-object reference
	if !isTypeParam(l.Typ) {
		switch l.Typ.Underlying().(type) {
		case *types.Struct:
			ref := sx("subref", l.Base, l.Idx)
			e.locs[in] = &Loc{Kind: lField, Heap: "", Base: ref, Typ: l.Typ}
			e.vals[in] = Val{T: ref}
			return
		case *types.Array:
			ref := sx("subref", l.Base, l.Idx)
			e.locs[in] = &Loc{Kind: lElem, Heap: "", Base: ref, Typ: l.Typ}
			e.vals[in] = Val{T: ref}
			return
		}
	}
	e.locs[in] = l
	e.declareFun("elemref", []string{"Int", "Int"}, "Int")
	e.vals[in] = Val{T: sx("elemref", l.Base, l.Idx)}
}

func (e *Enc) execIndex(in *ssa.Index) {
	x := e.val(in.X).T
	i := e.toInt(e.val(in.Index).T, in.Index.Type())
	switch u := in.X.Type().Underlying().(type) {
	case *types.Array:
		e.oblige("idx", e.ordName("idx"), tAnd(tLe("0", i), tLt(i, tInt(u.Len()))), in.Pos(), "index in range")
		e.setVal(in, tSel(x, i))
	case *types.Basic: // string
		e.oblige("idx", e.ordName("idx"), tAnd(tLe("0", i), tLt(i, sx("str-len", x))), in.Pos(), "string index in range")
		e.setVal(in, e.fromInt(tSel(sx("str-data", x), i), in.Type()))
	default:
		e.havocVal(in, "index")
		e.unsupported("Index on " + in.X.Type().String())
	}
}

// toInt converts an integer-typed SSA term to a mathematical Int (identity in int-mode).
func (e *Enc) toInt(t Term, typ types.Type) Term {
	if !e.bv || !isInteger(typ) {
		return t
	}
	if isUnsigned(typ) {
		return sx("bv2nat", t)
	}
	b := intBits(typ.Underlying().(*types.Basic))
	return tIte(sx("bvslt", t, fmt.Sprintf("(_ bv0 %d)", b)), sx("-", sx("bv2nat", t), pow2(b)), sx("bv2nat", t))
}

func pow2(b int) string {
	switch b {
	case 8:
		return "256"
	case 16:
		return "65536"
	case 32:
		return "4294967296"
	}
	return "18446744073709551616"
}

func (e *Enc) fromInt(t Term, typ types.Type) Term {
	if !e.bv || !isInteger(typ) {
		return t
	}
	b := intBits(typ.Underlying().(*types.Basic))
	return sx(fmt.Sprintf("(_ int2bv %d)", b), t)
}

func (e *Enc) execStore(in *ssa.Store) {
	l := e.ptrLoc(in.Addr)
	if l == nil {
		e.unsupported("store through unknown pointer")
		return
	}
	if _, static := e.locs[in.Addr]; !static {
		e.nilCheck(e.val(in.Addr).T, in.Pos(), "store through nil pointer")
	}
	v := e.val(in.Val).T
	e.guardCheck(in.Addr, true, in.Pos())
	e.frameCheckLoc(l, in.Pos())
	e.store(e.cur, l, v)
	e.atArgTypes = []types.Type{in.Val.Type()}
	e.applyAts("store", e.storeTargetName(in), in.Pos(), []Val{{T: v}}, nil)
	e.atArgTypes = nil
}

func (e *Enc) storeTargetName(in *ssa.Store) string {
	switch a := in.Addr.(type) {
	case *ssa.FieldAddr:
		st := a.X.Type().Underlying().(*types.Pointer).Elem().Underlying().(*types.Struct)
		return st.Field(a.Field).Name()
	case *ssa.Alloc:
		return a.Comment
	case *ssa.Global:
		return a.Name()
	}
	return ""
}

func (e *Enc) execUnOp(in *ssa.UnOp) {
	x := e.val(in.X)
	switch in.Op {
	case token.MUL: // load
		if g, ok := in.X.(*ssa.Global); ok {
			if t, ok2 := e.sentinel(g); ok2 {
				e.vals[in] = Val{T: t}
				return
			}
		}
		l := e.ptrLoc(in.X)
		if l == nil {
			e.havocVal(in, "load")
			e.unsupported("load through unknown pointer")
			return
		}
		if _, static := e.locs[in.X]; !static {
			e.nilCheck(x.T, in.Pos(), "load through nil pointer")
		}
		e.guardCheck(in.X, false, in.Pos())
		t := e.load(e.cur, l)
		t = e.define("ld_"+in.Name(), e.sortOf(in.Type()), t)
		e.vals[in] = Val{T: t}
		if fa, ok := in.X.(*ssa.FieldAddr); ok {
			if st, ok2 := fa.X.Type().Underlying().(*types.Pointer).Elem().Underlying().(*types.Struct); ok2 {
				// `at [every] load <field>`: res0 is the value read
				e.atResTypes = []types.Type{in.Type()}
				e.applyAts("load", st.Field(fa.Field).Name(), in.Pos(), nil, []Val{{T: t}})
				e.atResTypes = nil
			}
		}
		if _, fresh := e.allocFreshLoc(l); !fresh {
			st := e.cur
			if l.Heap != "" {
				if cur, ok := e.cur.h[l.Heap]; !ok || cur == smtName(l.Heap+"@0") {
					// the heap map is untouched since entry: what a cell that itself predates this activation holds
					// predates it too. (A cell allocated since — e.g. by a callee returning a fresh object — may
					// point to memory allocated since.)
					a0 := smtName("$alloc@0")
					bound := e.alloc(e.cur)
					if l.Kind == lGlobal {
						bound = a0
					} else if l.Base != "" {
						bound = tIte(tLt(rootRef(l.Base), a0), a0, bound)
					}
					st = &State{h: map[string]Term{"$alloc": bound}}
				}
			}
			e.assume(e.typeFacts(t, in.Type(), st))
		}
	case token.NOT:
		e.setVal(in, tNot(x.T))
	case token.SUB:
		if isFloat(in.Type()) {
			e.setVal(in, sx("-", x.T))
			return
		}
		if e.bv {
			e.setVal(in, sx("bvneg", x.T))
			return
		}
		e.setVal(in, e.wrap(sx("-", x.T), in.Type(), in.Name()))
	case token.XOR:
		if e.bv {
			e.setVal(in, sx("bvnot", x.T))
			return
		}
		if isUnsigned(in.Type()) {
			_, hi, _ := intRange(in.Type())
			e.setVal(in, tSub(hi, x.T))
		} else {
			e.setVal(in, tSub(sx("-", x.T), "1"))
		}
	case token.ARROW:
		e.execRecv(in)
	default:
		e.havocVal(in, "unop")
		e.unsupported("unop " + in.Op.String())
	}
}

// allocFreshLoc reports whether the location certainly belongs to an object allocated in this activation
// (then its content is fully determined by our own stores and needs no type assumptions).
func (e *Enc) allocFreshLoc(l *Loc) (Term, bool) { return "", false }

func (e *Enc) execBinOp(in *ssa.BinOp) {
	x, y := e.val(in.X).T, e.val(in.Y).T
	xt := in.X.Type()
	switch in.Op {
	case token.EQL, token.NEQ:
		var eq Term
		switch xt.Underlying().(type) {
		case *types.Slice:
			// only comparison with nil is legal
			if isNilConst(in.Y) {
				eq = tEq(sx("s-base", x), "0")
			} else {
				eq = tEq(sx("s-base", y), "0")
			}
		case *types.Interface:
			if _, yi := in.Y.Type().Underlying().(*types.Interface); !yi {
				eq = tFalse // mixed comparison is boxed by SSA; should not happen
			} else {
				eq = tEq(x, y)
			}
		default:
			eq = tEq(x, y)
		}
		if in.Op == token.NEQ {
			eq = tNot(eq)
		}
		e.setVal(in, eq)
		return
	case token.LSS, token.LEQ, token.GTR, token.GEQ:
		if isString(xt) {
			e.havocVal(in, "strcmp")
			return
		}
		if e.bv && isInteger(xt) {
			op := map[token.Token]string{token.LSS: "lt", token.LEQ: "le", token.GTR: "gt", token.GEQ: "ge"}[in.Op]
			p := "bvs"
			if isUnsigned(xt) {
				p = "bvu"
			}
			e.setVal(in, sx(p+op, x, y))
			return
		}
		op := map[token.Token]string{token.LSS: "<", token.LEQ: "<=", token.GTR: ">", token.GEQ: ">="}[in.Op]
		e.setVal(in, sx(op, x, y))
		return
	}
	t := in.Type()
	if isString(t) && in.Op == token.ADD {
		e.setVal(in, e.strConcat(x, y))
		return
	}
	if isFloat(t) {
		switch in.Op {
		case token.ADD:
			e.setVal(in, sx("+", x, y))
		case token.SUB:
			e.setVal(in, sx("-", x, y))
		case token.MUL:
			// the real product; the rounding of each floating-point operation is accounted for where a float is
			// converted back to an integer (execConvert: exact below 2^53, a margin above)
			e.setVal(in, sx("*", x, y))
		default:
			e.havocVal(in, "float")
		}
		return
	}
	if isIntTypeParam(t) {
		// integer of unknown width: arithmetic is an uninterpreted function shared with specs (pure func tpadd …)
		name := map[token.Token]string{token.ADD: "tpadd", token.SUB: "tpsub", token.MUL: "tpmul"}[in.Op]
		if name != "" {
			fn := smtName("pf$" + name)
			e.declareFun(fn, []string{"Int", "Int"}, "Int")
			e.setVal(in, sx(fn, x, y))
			return
		}
	}
	if !isInteger(t) {
		e.havocVal(in, "binop")
		e.unsupported("binop on " + t.String())
		return
	}
	if e.bv {
		e.execBinOpBV(in, x, y)
		return
	}
	switch in.Op {
	case token.ADD:
		e.setVal(in, e.wrap(sx("+", x, y), t, in.Name()))
	case token.SUB:
		e.setVal(in, e.wrap(sx("-", x, y), t, in.Name()))
	case token.MUL:
		e.setVal(in, e.wrap(sx("*", x, y), t, in.Name()))
	case token.QUO:
		e.oblige("div", e.ordName("div"), tNot(tEq(y, "0")), in.Pos(), "division by zero")
		e.setVal(in, e.wrap(e.truncDiv(x, y), t, in.Name()))
	case token.REM:
		e.oblige("div", e.ordName("div"), tNot(tEq(y, "0")), in.Pos(), "division by zero")
		e.setVal(in, e.truncRem(x, y))
	case token.SHL, token.SHR, token.AND, token.OR, token.XOR, token.AND_NOT:
		e.setVal(in, e.bitOpInt(in.Op, x, y, t, in.Y.Type(), in))
	default:
		e.havocVal(in, "binop")
		e.unsupported("binop " + in.Op.String())
	}
}

func isNilConst(v ssa.Value) bool {
	c, ok := v.(*ssa.Const)
	return ok && c.Value == nil
}

// truncDiv: Go's truncated division expressed with SMT's floor division.
func (e *Enc) truncDiv(x, y Term) Term {
	// for x >= 0: div matches when y > 0; general: ite
	return tIte(tLe("0", x), sx("div", x, y), sx("-", sx("div", sx("-", x), y)))
}

func (e *Enc) truncRem(x, y Term) Term {
	// Go: x % y has the sign of x; |x % y| = |x| mod |y|
	ay := sx("abs", y)
	return tIte(tLe("0", x), sx("mod", x, ay), sx("-", sx("mod", sx("-", x), ay)))
}

func (e *Enc) bitOpInt(op token.Token, x, y Term, t, yt types.Type, in *ssa.BinOp) Term {
	name := map[token.Token]string{token.SHL: "shl", token.SHR: "shr", token.AND: "and", token.OR: "or", token.XOR: "xor", token.AND_NOT: "andnot"}[op]
	// constant-shift and constant-mask special cases stay linear
	if c, ok := in.Y.(*ssa.Const); ok && c.Value != nil {
		if k, exact := constInt(c); exact {
			switch op {
			case token.SHL:
				if k >= 0 && k < 63 {
					return e.wrap(sx("*", x, tInt(int64(1)<<uint(k))), t, in.Name())
				}
			case token.SHR:
				if k >= 0 && k < 63 {
					return sx("div", x, tInt(int64(1)<<uint(k)))
				}
			case token.AND:
				if k >= 0 && (k&(k+1)) == 0 && isUnsigned(t) { // 2^m - 1 mask
					return sx("mod", x, tInt(k+1))
				}
			}
		}
	}
	fn := "bit_" + name
	e.declareFun(fn, []string{"Int", "Int"}, "Int")
	r := e.fresh("bit_"+in.Name(), "Int")
	e.assumeG(tEq(r, sx(fn, x, y)))
	e.assumeG(inRange(t, r))
	if isUnsigned(t) || true {
		switch op {
		case token.AND:
			e.assumeG(tImp(tAnd(tLe("0", x), tLe("0", y)), tAnd(tLe("0", r), tLe(r, x), tLe(r, y))))
		case token.OR:
			e.assumeG(tImp(tAnd(tLe("0", x), tLe("0", y)), tAnd(tLe(x, r), tLe(y, r))))
		case token.SHR:
			e.assumeG(tImp(tLe("0", x), tAnd(tLe("0", r), tLe(r, x))))
		}
	}
	return r
}

func constInt(c *ssa.Const) (int64, bool) {
	if c.Value == nil {
		return 0, false
	}
	if b, ok := c.Type().Underlying().(*types.Basic); ok && b.Info()&types.IsInteger != 0 {
		if b.Info()&types.IsUnsigned != 0 {
			u := c.Uint64()
			if u > 1<<62 {
				return 0, false
			}
			return int64(u), true
		}
		return c.Int64(), true
	}
	return 0, false
}

func (e *Enc) execBinOpBV(in *ssa.BinOp, x, y Term) {
	t := in.Type()
	uns := isUnsigned(t)
	bits := intBits(t.Underlying().(*types.Basic))
	zero := fmt.Sprintf("(_ bv0 %d)", bits)
	switch in.Op {
	case token.ADD:
		e.setVal(in, sx("bvadd", x, y))
	case token.SUB:
		e.setVal(in, sx("bvsub", x, y))
	case token.MUL:
		e.setVal(in, sx("bvmul", x, y))
	case token.QUO:
		e.oblige("div", e.ordName("div"), tNot(tEq(y, zero)), in.Pos(), "division by zero")
		if uns {
			e.setVal(in, sx("bvudiv", x, y))
		} else {
			e.setVal(in, sx("bvsdiv", x, y))
		}
	case token.REM:
		e.oblige("div", e.ordName("div"), tNot(tEq(y, zero)), in.Pos(), "division by zero")
		if uns {
			e.setVal(in, sx("bvurem", x, y))
		} else {
			e.setVal(in, sx("bvsrem", x, y))
		}
	case token.AND:
		e.setVal(in, sx("bvand", x, y))
	case token.OR:
		e.setVal(in, sx("bvor", x, y))
	case token.XOR:
		e.setVal(in, sx("bvxor", x, y))
	case token.AND_NOT:
		e.setVal(in, sx("bvand", x, sx("bvnot", y)))
	case token.SHL, token.SHR:
		// shift count has its own type/width: resize to the width of x (saturating is not needed: Go gives 0 /
		// sign-fill for counts >= width, which is also what SMT-LIB bvshl/bvlshr/bvashr do).
		yb := intBits(in.Y.Type().Underlying().(*types.Basic))
		cnt := y
		if yb < bits {
			cnt = sx(fmt.Sprintf("(_ zero_extend %d)", bits-yb), y)
		} else if yb > bits {
			// counts that do not fit saturate
			lowc := sx(fmt.Sprintf("(_ extract %d 0)", bits-1), y)
			high := sx(fmt.Sprintf("(_ extract %d %d)", yb-1, bits), y)
			cnt = tIte(tEq(high, fmt.Sprintf("(_ bv0 %d)", yb-bits)), lowc, fmt.Sprintf("(_ bv%d %d)", bits, bits))
		}
		if !isUnsigned(in.Y.Type()) {
			// negative shift count panics
			e.oblige("shift", e.ordName("shift"), sx("bvsge", y, fmt.Sprintf("(_ bv0 %d)", yb)), in.Pos(), "negative shift count")
		}
		if in.Op == token.SHL {
			e.setVal(in, sx("bvshl", x, cnt))
		} else if uns {
			e.setVal(in, sx("bvlshr", x, cnt))
		} else {
			e.setVal(in, sx("bvashr", x, cnt))
		}
	default:
		e.havocVal(in, "binop")
	}
}

func (e *Enc) execConvert(in *ssa.Convert) {
	x := e.val(in.X).T
	from, to := in.X.Type(), in.Type()
	switch {
	case isInteger(from) && isInteger(to):
		if e.bv {
			fb, tb := intBits(from.Underlying().(*types.Basic)), intBits(to.Underlying().(*types.Basic))
			switch {
			case fb == tb:
				e.setVal(in, x)
			case fb > tb:
				e.setVal(in, sx(fmt.Sprintf("(_ extract %d 0)", tb-1), x))
			case isUnsigned(from):
				e.setVal(in, sx(fmt.Sprintf("(_ zero_extend %d)", tb-fb), x))
			default:
				e.setVal(in, sx(fmt.Sprintf("(_ sign_extend %d)", tb-fb), x))
			}
			return
		}
		lo, hi, _ := intRange(to)
		flo, fhi, _ := intRange(from)
		if rangeWithin(flo, fhi, lo, hi) {
			e.setVal(in, x)
			return
		}
		// narrowing: exact for unsigned targets via mod when the source is non-negative; havoc otherwise
		if isUnsigned(to) {
			m := map[string]string{"255": "256", "65535": "65536", "4294967295": "4294967296", "18446744073709551615": "18446744073709551616"}[hi]
			e.setVal(in, sx("mod", x, m))
			return
		}
		e.setVal(in, e.wrap(x, to, in.Name()))
	case isInteger(from) && isFloat(to):
		if e.bv {
			e.havocVal(in, "conv")
			return
		}
		e.setVal(in, sx("to_real", x))
	case isFloat(from) && isInteger(to):
		// float -> integer. Floats are modelled as reals; a float64 value obtained from integers by a few + - * operations
		// equals the real result exactly while that stays below 2^53 in magnitude, and within 2^12 of it up to the
		// target's range (ulp <= 2^10 below 2^63, a few operations). Beyond the target's range the Go specification leaves
		// the result implementation-defined: it is an arbitrary value of the target type.
		c := e.havocVal(in, "f2i")
		if e.bv {
			return
		}
		tlo, thi, okR := intRange(to)
		if !okR {
			return
		}
		tr := e.fresh("f2i_trunc", "Int")
		// tr = x truncated toward zero
		e.assume(tIte(sx(">=", x, "0.0"), tAnd(tLe(sx("to_real", tr), x), sx("<", x, sx("to_real", tAdd(tr, "1")))),
			tAnd(sx(">=", sx("to_real", tr), x), sx(">", x, sx("to_real", sx("-", tr, "1"))))))
		small := tAnd(tLe("(- 9007199254740992)", tr), tLe(tr, "9007199254740992"))
		inRange := tAnd(tLe(tlo, tr), tLe(tr, thi))
		e.assume(tImp(small, tImp(inRange, tEq(c, tr))))
		e.assume(tImp(tAnd(tNot(small), inRange, tLe(tlo, sx("-", tr, "4096")), tLe(tAdd(tr, "4096"), thi)),
			tAnd(tLe(sx("-", tr, "4096"), c), tLe(c, tAdd(tr, "4096")))))
	case isFloat(from) && isFloat(to):
		e.setVal(in, x)
	case isString(to) && isByteSlice(from):
		e.setVal(in, e.bytesToString(x))
	case isByteSlice(to) && isString(from):
		e.setVal(in, e.stringToBytes(x))
	case isRuneSlice(to) && isString(from):
		// []rune(s): a fresh slice of the decoded runes (1..len(s) of them for a non-empty string)
		ref := e.newRef(e.cur, "s2r")
		n := e.fresh("s2r_len", "Int")
		c := e.fresh("s2r_cap", "Int")
		sl := sx("str-len", x)
		e.assume(tAnd(tLe("0", n), tLe(n, sl), tImp(tLt("0", sl), tLe("1", n)), tLe(n, c), tLe(c, maxLenBound)))
		e.setVal(in, sx("mk-slice", ref, "0", n, c))
	case isString(to) && isRuneSlice(from):
		// string(rs): between len(rs) and 4*len(rs) bytes of UTF-8
		cc := e.havocVal(in, "r2s")
		e.assume(tAnd(tLe(sx("s-len", x), sx("str-len", cc)), tLe(sx("str-len", cc), sx("*", "4", sx("s-len", x)))))
	case isString(to) && isInteger(from):
		c := e.havocVal(in, "runestr")
		e.assume(tAnd(tLe("1", sx("str-len", c)), tLe(sx("str-len", c), "4")))
		if !e.bv {
			e.assume(tImp(tAnd(tLe("0", x), tLt(x, "128")), tAnd(tEq(sx("str-len", c), "1"), tEq(tSel(sx("str-data", c), "0"), x))))
		}
	default:
		if _, ok := to.Underlying().(*types.Pointer); ok {
			e.vals[in] = Val{T: x}
			return
		}
		if b, ok := to.Underlying().(*types.Basic); ok && b.Kind() == types.UnsafePointer {
			e.vals[in] = Val{T: x}
			return
		}
		e.havocVal(in, "conv")
		if e.sortOf(from) == e.sortOf(to) && !isString(to) {
			// same representation (e.g. named types): keep value
			e.vals[in] = Val{T: x}
		}
	}
}

func rangeWithin(flo, fhi, lo, hi string) bool {
	cmp := func(a, b string) int { return bigCmp(a, b) }
	return cmp(flo, lo) >= 0 && cmp(fhi, hi) <= 0
}

func isRuneSlice(t types.Type) bool {
	s, ok := t.Underlying().(*types.Slice)
	if !ok {
		return false
	}
	b, ok := s.Elem().Underlying().(*types.Basic)
	return ok && b.Kind() == types.Int32
}

func isByteSlice(t types.Type) bool {
	s, ok := t.Underlying().(*types.Slice)
	if !ok {
		return false
	}
	b, ok := s.Elem().Underlying().(*types.Basic)
	return ok && b.Kind() == types.Uint8
}

func (e *Enc) execMakeInterface(in *ssa.MakeInterface) {
	x := e.val(in.X).T
	id := e.W.typeID(in.X.Type())
	var payload Term
	switch in.X.Type().Underlying().(type) {
	case *types.Pointer, *types.Map, *types.Chan, *types.Signature:
		payload = x
	default:
		if isInteger(in.X.Type()) && !e.bv {
			payload = x
		} else if isBool(in.X.Type()) {
			payload = tIte(x, "1", "0")
		} else {
			srt := e.sortOf(in.X.Type())
			fn := smtName("box$" + srt)
			e.declareFun(fn, []string{srt}, "Int")
			ufn := smtName("unbox$" + srt)
			e.declareFun(ufn, []string{"Int"}, srt)
			payload = sx(fn, x)
			e.assumeG(tEq(sx(ufn, payload), x))
		}
	}
	e.setVal(in, sx("mk-iface", tInt(int64(id)), payload))
}

func (e *Enc) unbox(x Term, t types.Type) Term {
	switch t.Underlying().(type) {
	case *types.Pointer, *types.Map, *types.Chan, *types.Signature:
		return sx("i-val", x)
	}
	if isInteger(t) && !e.bv {
		return sx("i-val", x)
	}
	if isBool(t) {
		return tEq(sx("i-val", x), "1")
	}
	srt := e.sortOf(t)
	fn := smtName("box$" + srt)
	e.declareFun(fn, []string{srt}, "Int")
	ufn := smtName("unbox$" + srt)
	e.declareFun(ufn, []string{"Int"}, srt)
	return sx(ufn, sx("i-val", x))
}

func (e *Enc) execTypeAssert(in *ssa.TypeAssert) {
	x := e.val(in.X).T
	var ok Term
	var v Term
	if _, isIface := in.AssertedType.Underlying().(*types.Interface); isIface {
		ok = e.implementsPred(x, in.AssertedType)
		v = x
	} else {
		id := e.W.typeID(in.AssertedType)
		ok = tEq(sx("i-typ", x), tInt(int64(id)))
		v = e.unbox(x, in.AssertedType)
	}
	if in.CommaOk {
		okc := e.define("ok_"+in.Name(), "Bool", ok)
		vv := e.fresh("ta_"+in.Name(), e.sortOf(in.AssertedType))
		e.assumeG(tEq(vv, tIte(okc, v, e.zeroOf(in.AssertedType))))
		if _, isIface := in.AssertedType.Underlying().(*types.Interface); !isIface {
			e.assume(tImp(okc, e.typeFacts(vv, in.AssertedType, e.cur)))
		}
		e.vals[in] = Val{Tup: []Val{{T: vv}, {T: okc}}}
		return
	}
	e.oblige("assert", e.ordName("assert"), ok, in.Pos(), "type assertion to "+in.AssertedType.String())
	vv := e.define("ta_"+in.Name(), e.sortOf(in.AssertedType), v)
	e.vals[in] = Val{T: vv}
	if _, isIface := in.AssertedType.Underlying().(*types.Interface); !isIface {
		e.assume(e.typeFacts(vv, in.AssertedType, e.cur))
	}
}

// implementsPred: dynamic type of x implements interface it (x non-nil).
func (e *Enc) implementsPred(x Term, it types.Type) Term {
	iface := it.Underlying().(*types.Interface)
	if iface.NumMethods() == 0 {
		return tNot(tEq(sx("i-typ", x), "0"))
	}
	fn := smtName("impl$" + typeKey(it))
	e.declareFun(fn, []string{"Int"}, "Bool")
	e.W.implFns[fn] = it
	e.implUsed = append(e.implUsed, implUse{fn, it})
	return tAnd(tNot(tEq(sx("i-typ", x), "0")), sx(fn, sx("i-typ", x)))
}

func (e *Enc) execMakeSlice(in *ssa.MakeSlice) {
	l := e.toInt(e.val(in.Len).T, in.Len.Type())
	c := e.toInt(e.val(in.Cap).T, in.Cap.Type())
	e.oblige("make", e.ordName("make"), tAnd(tLe("0", l), tLe(l, c)), in.Pos(), "makeslice: len out of range")
	elem := in.Type().Underlying().(*types.Slice).Elem()
	r := e.newRef(e.cur, "mk")
	h := elemHeap(elem)
	srt := fmt.Sprintf("(Array Int (Array Int %s))", e.sortOf(elem))
	e.hset(e.cur, h, srt, tStore(e.hget(e.cur, h, srt), r, fmt.Sprintf("((as const (Array Int %s)) %s)", e.sortOf(elem), e.zeroOf(elem))))
	e.setVal(in, sx("mk-slice", r, "0", l, c))
}

func (e *Enc) execSlice(in *ssa.Slice) {
	x := e.val(in.X).T
	get := func(v ssa.Value, def Term) Term {
		if v == nil {
			return def
		}
		return e.toInt(e.val(v).T, v.Type())
	}
	switch u := in.X.Type().Underlying().(type) {
	case *types.Slice:
		lo := get(in.Low, "0")
		hi := get(in.High, sx("s-len", x))
		mx := get(in.Max, sx("s-cap", x))
		g := tAnd(tLe("0", lo), tLe(lo, hi), tLe(hi, mx), tLe(mx, sx("s-cap", x)))
		e.oblige("slice", e.ordName("slice"), g, in.Pos(), "slice bounds in range")
		// Go: slicing a nil slice [0:0] stays nil; non-nil base is kept
		e.setVal(in, sx("mk-slice", sx("s-base", x), tIte(tEq(sx("s-base", x), "0"), "0", tAdd(sx("s-off", x), lo)), tSub(hi, lo), tSub(mx, lo)))
	case *types.Basic: // string
		lo := get(in.Low, "0")
		hi := get(in.High, sx("str-len", x))
		g := tAnd(tLe("0", lo), tLe(lo, hi), tLe(hi, sx("str-len", x)))
		e.oblige("slice", e.ordName("slice"), g, in.Pos(), "string slice bounds in range")
		e.setVal(in, e.substr(x, lo, hi))
	case *types.Pointer:
		at := u.Elem().Underlying().(*types.Array)
		n := tInt(at.Len())
		lo := get(in.Low, "0")
		hi := get(in.High, n)
		mx := get(in.Max, n)
		g := tAnd(tLe("0", lo), tLe(lo, hi), tLe(hi, mx), tLe(mx, n))
		e.oblige("slice", e.ordName("slice"), g, in.Pos(), "slice bounds in range")
		e.nilCheck(x, in.Pos(), "slice of nil array pointer")
		e.setVal(in, sx("mk-slice", x, lo, tSub(hi, lo), tSub(mx, lo)))
	default:
		e.havocVal(in, "slice")
		e.unsupported("Slice on " + in.X.Type().String())
	}
}

// ---- strings ----

func (e *Enc) substr(x, lo, hi Term) Term {
	if lo == "0" && hi == sx("str-len", x) {
		return x
	}
	r := e.fresh("substr", "Str")
	lo = e.define("lo", "Int", lo)
	e.assumeG(tEq(sx("str-len", r), tSub(hi, lo)))
	e.assumeG(fmt.Sprintf("(forall ((i!s Int)) (! (= (select (str-data %s) i!s) (ite (and (<= 0 i!s) (< i!s (str-len %s))) (select (str-data %s) (+ %s i!s)) 0)) :pattern ((select (str-data %s) i!s))))", r, r, x, lo, r))
	return r
}

func (e *Enc) strConcat(x, y Term) Term {
	// a function application, so that concatenations of equal operands are equal by congruence; the two defining
	// facts are stated per term
	e.declareFun("str-cat", []string{"Str", "Str"}, "Str")
	r := e.define("concat", "Str", sx("str-cat", x, y))
	e.assumeG(tEq(sx("str-len", r), tAdd(sx("str-len", x), sx("str-len", y))))
	e.assumeG(fmt.Sprintf("(forall ((i!s Int)) (! (= (select (str-data %s) i!s) (ite (< i!s (str-len %s)) (select (str-data %s) i!s) (select (str-data %s) (- i!s (str-len %s))))) :pattern ((select (str-data %s) i!s))))", r, x, x, y, x, r))
	return r
}

func (e *Enc) bytesToString(x Term) Term {
	r := e.fresh("b2s", "Str")
	H := e.hget(e.cur, "E$uint8", "(Array Int (Array Int Int))")
	e.assumeG(tEq(sx("str-len", r), sx("s-len", x)))
	e.assumeG(fmt.Sprintf("(forall ((i!s Int)) (! (= (select (str-data %s) i!s) (ite (and (<= 0 i!s) (< i!s (s-len %s))) (select (select %s (s-base %s)) (+ (s-off %s) i!s)) 0)) :pattern ((select (str-data %s) i!s))))", r, x, H, x, x, r))
	return r
}

func (e *Enc) stringToBytes(x Term) Term {
	ref := e.newRef(e.cur, "s2b")
	srt := "(Array Int (Array Int Int))"
	arr := e.fresh("s2b_arr", "(Array Int Int)")
	e.assumeG(fmt.Sprintf("(forall ((i!s Int)) (! (= (select %s i!s) (select (str-data %s) i!s)) :pattern ((select %s i!s))))", arr, x, arr))
	e.hset(e.cur, "E$uint8", srt, tStore(e.hget(e.cur, "E$uint8", srt), ref, arr))
	c := e.fresh("s2b_cap", "Int")
	e.assumeG(tAnd(tLe(sx("str-len", x), c), tLe(c, maxLenBound)))
	return sx("mk-slice", ref, "0", sx("str-len", x), c)
}

func bigCmp(a, b string) int {
	pa, pb := parseBig(a), parseBig(b)
	return pa.Cmp(pb)
}


// sentClauses: the message-passing rule for `sent` clauses of a struct type T. A value of type *T that is sent on a
// channel must satisfy them (obligation in the sender's state); a received *T is assumed to satisfy them (the message's
// fields are written before the send and not afterwards: what every sender proved about the message).
func (e *Enc) sentClauses(t types.Type, v Term, sending bool, pos token.Pos) {
	pt, ok := t.Underlying().(*types.Pointer)
	if !ok {
		return
	}
	tc := e.W.typeContract(pt.Elem())
	if tc == nil || len(tc.Sent) == 0 {
		return
	}
	env := e.newSpecEnv(e.cur, e.init)
	env.noLocals = true
	env.vars["self"] = SV{T: v, Sort: "Int", GT: t}
	if n, isN := stripTypeArgs(pt.Elem()).(*types.Named); isN && n.Obj().Pkg() != nil {
		env.pkg = n.Obj().Pkg()
	}
	for i, cl := range tc.Sent {
		g := env.evalBool(cl.Expr)
		if sending {
			o := e.oblige("sent", fmt.Sprintf("sent:%s.%d@%s", tc.Key, i, e.ordName("send")), g, pos, cl.Src)
			o.setLabel(cl.Label)
		} else {
			e.used["channel hand-off: a received *"+tc.Key+" satisfies what every sender proved about it ("+cl.Src+")"] = true
			e.assume(g)
		}
	}
}
