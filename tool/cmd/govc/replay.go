package main

import (
	"bytes"
	"context"
	"encoding/json"
	"fmt"
	"go/types"
	"os"
	"os/exec"
	"path/filepath"
	"strconv"
	"strings"
	"text/template"
	"time"
)

// ---------- counterexample extraction ----------

// qfQuery renders the obligation without quantified hypotheses (small, decidable; may admit spurious
// models, which is why every model is replayed on the real code and never trusted by itself).
func (e *Enc) qfQuery(o *Oblig, extra []Term, getValues []Term) string {
	var sb strings.Builder
	sb.WriteString(preamble)
	keep := func(a Term) bool { return !strings.Contains(a, "(forall ") && !strings.Contains(a, "(exists ") }
	for _, d := range e.decls {
		if strings.HasPrefix(d, "(define-fun ") && !keep(d) {
			// a spec function with a quantified body stays uninterpreted in the weakening
			if n := parseSx(d); n != nil && len(n.kids) == 5 {
				var ps []string
				for _, b := range n.kids[2].kids {
					if len(b.kids) == 2 {
						ps = append(ps, b.kids[1].String())
					}
				}
				d = fmt.Sprintf("(declare-fun %s (%s) %s)", n.kids[1].String(), strings.Join(ps, " "), n.kids[3].String())
			}
		}
		sb.WriteString(d)
		sb.WriteByte('\n')
	}
	for _, a := range e.finalAxioms() {
		if keep(a) {
			sb.WriteString("(assert " + a + ")\n")
		}
	}
	for _, a := range e.asm[:o.NAssume] {
		if keep(a) {
			sb.WriteString("(assert " + a + ")\n")
		}
	}
	if o.Reach != tTrue {
		sb.WriteString("(assert " + o.Reach + ")\n")
	}
	sb.WriteString("(assert (not " + o.Goal + "))\n")
	for _, x := range extra {
		sb.WriteString("(assert " + x + ")\n")
	}
	sb.WriteString("(check-sat)\n")
	if len(getValues) > 0 {
		sb.WriteString("(get-value (" + strings.Join(getValues, " ") + "))\n")
	}
	return sb.String()
}

func runZ3Values(query, scratch, tag string, timeoutS int) (status string, vals map[string]string, raw string) {
	file := filepath.Join(scratch, "ce_"+tag+".smt2")
	os.WriteFile(file, []byte(query), 0o644)
	ctx, cancel := context.WithTimeout(context.Background(), time.Duration(timeoutS+2)*time.Second)
	defer cancel()
	cmd := exec.CommandContext(ctx, "z3-new", fmt.Sprintf("-T:%d", timeoutS), file)
	var out bytes.Buffer
	cmd.Stdout = &out
	cmd.Stderr = &out
	cmd.Run()
	raw = out.String()
	lines := strings.SplitN(raw, "\n", 2)
	status = strings.TrimSpace(lines[0])
	vals = map[string]string{}
	if status == "sat" && len(lines) > 1 {
		n := parseSx(lines[1])
		if n != nil {
			for _, kv := range n.kids {
				if kv.list && len(kv.kids) == 2 {
					vals[kv.kids[0].String()] = kv.kids[1].String()
				}
			}
		}
	}
	return
}

func smtIntValue(s string) (int64, bool) {
	s = strings.TrimSpace(s)
	neg := false
	if strings.HasPrefix(s, "(- ") {
		neg = true
		s = strings.TrimSuffix(strings.TrimPrefix(s, "(- "), ")")
	}
	if strings.HasPrefix(s, "#x") {
		u, err := strconv.ParseUint(s[2:], 16, 64)
		return int64(u), err == nil
	}
	if strings.HasPrefix(s, "#b") {
		u, err := strconv.ParseUint(s[2:], 2, 64)
		return int64(u), err == nil
	}
	v, err := strconv.ParseInt(s, 10, 64)
	if err != nil {
		return 0, false
	}
	if neg {
		v = -v
	}
	return v, true
}

type ceParam struct {
	Name   string  `json:"name"`
	GoType string  `json:"type"`
	Kind   string  `json:"kind"` // int bool string bytes other
	Int    int64   `json:"int,omitempty"`
	Bool   bool    `json:"bool,omitempty"`
	Str    []int64 `json:"str,omitempty"`
	Off    int64   `json:"off,omitempty"`
	Len    int64   `json:"len,omitempty"`
	Cap    int64   `json:"cap,omitempty"`
	Data   []int64 `json:"data,omitempty"`
	IsNil  bool    `json:"nil,omitempty"`
	Base   int64   `json:"base,omitempty"`
}

const maxReplayElems = 1 << 17

// extractCE asks for a model of the quantifier-free weakening and reads the parameter values.
func (e *Enc) extractCE(o *Oblig, scratch string) ([]ceParam, string, bool) {
	if e.bv {
		return nil, "bit-vector mode: model extraction not implemented", false
	}
	type pinfo struct {
		name string
		t    types.Type
		term Term
	}
	var ps []pinfo
	for _, p := range e.fn.Params {
		ps = append(ps, pinfo{p.Name(), p.Type(), e.vals[p].T})
	}
	var scalars []Term
	for _, p := range ps {
		switch {
		case isInteger(p.t) || isBool(p.t):
			scalars = append(scalars, p.term)
		case isString(p.t):
			scalars = append(scalars, sx("str-len", p.term))
		default:
			if _, ok := p.t.Underlying().(*types.Slice); ok {
				scalars = append(scalars, sx("s-base", p.term), sx("s-off", p.term), sx("s-len", p.term), sx("s-cap", p.term))
			}
		}
	}
	if len(scalars) == 0 {
		scalars = append(scalars, smtName("$alloc@0"))
	}
	tag := sanitize(o.Name)
	// prefer small models: try bounded lengths first, then unbounded
	var small []Term
	for _, p := range ps {
		if isString(p.t) {
			small = append(small, tLe(sx("str-len", p.term), "64"))
		} else if _, ok := p.t.Underlying().(*types.Slice); ok {
			small = append(small, tLe(sx("s-cap", p.term), "96"), tLe(sx("s-off", p.term), "8"))
		}
	}
	st, vals, raw := runZ3Values(e.qfQuery(o, small, scalars), scratch, tag+"_1s", 5)
	if st != "sat" {
		st, vals, raw = runZ3Values(e.qfQuery(o, nil, scalars), scratch, tag+"_1", 10)
	}
	if st != "sat" {
		return nil, "quantifier-free weakening: " + firstLines(raw, 2), false
	}
	var fix []Term
	var elems []Term
	var out []ceParam
	for _, p := range ps {
		cp := ceParam{Name: p.name, GoType: types.TypeString(p.t, func(pk *types.Package) string { return pk.Name() })}
		switch {
		case isInteger(p.t):
			cp.Kind = "int"
			cp.Int, _ = smtIntValue(vals[p.term])
			fix = append(fix, tEq(p.term, tInt(cp.Int)))
		case isBool(p.t):
			cp.Kind = "bool"
			cp.Bool = vals[p.term] == "true"
			fix = append(fix, tEq(p.term, vals[p.term]))
		case isString(p.t):
			cp.Kind = "string"
			cp.Len, _ = smtIntValue(vals[sx("str-len", p.term)])
			fix = append(fix, tEq(sx("str-len", p.term), tInt(cp.Len)))
			for i := int64(0); i < cp.Len && i < maxReplayElems; i++ {
				elems = append(elems, tSel(sx("str-data", p.term), tInt(i)))
			}
		default:
			if sl, ok := p.t.Underlying().(*types.Slice); ok && isByteSlice(p.t) {
				cp.Kind = "bytes"
				cp.Base, _ = smtIntValue(vals[sx("s-base", p.term)])
				cp.Off, _ = smtIntValue(vals[sx("s-off", p.term)])
				cp.Len, _ = smtIntValue(vals[sx("s-len", p.term)])
				cp.Cap, _ = smtIntValue(vals[sx("s-cap", p.term)])
				cp.IsNil = cp.Base == 0
				for _, f := range []string{"s-base", "s-off", "s-len", "s-cap"} {
					v, _ := smtIntValue(vals[sx(f, p.term)])
					fix = append(fix, tEq(sx(f, p.term), tInt(v)))
				}
				H := smtName(elemHeap(sl.Elem()) + "@0")
				if _, declared := e.declOf[H]; declared {
					for i := int64(0); i < cp.Len && i < maxReplayElems; i++ {
						elems = append(elems, tSel(tSel(H, tInt(cp.Base)), tInt(cp.Off+i)))
					}
				}
			} else {
				cp.Kind = "other"
			}
		}
		out = append(out, cp)
	}
	if len(elems) > 0 {
		st2, vals2, raw2 := runZ3Values(e.qfQuery(o, fix, elems), scratch, tag+"_2", 10)
		if st2 != "sat" {
			return out, "element query: " + firstLines(raw2, 2), true
		}
		for i := range out {
			cp := &out[i]
			p := ps[i]
			switch cp.Kind {
			case "string":
				for k := int64(0); k < cp.Len && k < maxReplayElems; k++ {
					v, _ := smtIntValue(vals2[tSel(sx("str-data", p.term), tInt(k))])
					cp.Str = append(cp.Str, ((v%256)+256)%256)
				}
			case "bytes":
				sl := p.t.Underlying().(*types.Slice)
				H := smtName(elemHeap(sl.Elem()) + "@0")
				for k := int64(0); k < cp.Len && k < maxReplayElems; k++ {
					v, _ := smtIntValue(vals2[tSel(tSel(H, tInt(cp.Base)), tInt(cp.Off+k))])
					cp.Data = append(cp.Data, ((v%256)+256)%256)
				}
			}
		}
	}
	return out, "", true
}

// ---------- replay test generation ----------

func goBytesLit(d []int64) string {
	var sb strings.Builder
	sb.WriteString("[]byte{")
	for i, b := range d {
		if i > 0 {
			sb.WriteString(",")
		}
		fmt.Fprintf(&sb, "%d", b)
	}
	sb.WriteString("}")
	return sb.String()
}

type replayPlan struct {
	Src     string
	PkgDir  string
	Verdict string
	Output  string
}

// genReplayTest builds an in-package test that calls the function with the model's inputs.
// Supported: package-level functions whose parameters are integers, booleans, strings and byte slices.
func (e *Enc) genReplayTest(o *Oblig, params []ceParam) (string, string) {
	fn := e.fn
	if fn.Signature.Recv() != nil || fn.Parent() != nil {
		return "", "replay of methods/closures needs a receiver constructor (not generated)"
	}
	pkg := fn.Pkg.Pkg
	var sb strings.Builder
	fmt.Fprintf(&sb, "package %s\n\nimport (\n\t\"bytes\"\n\t\"fmt\"\n\t\"testing\"\n)\n\n", pkg.Name())
	sb.WriteString("var _ = bytes.Equal\nvar _ = fmt.Sprint\n\n")
	sb.WriteString("func TestGovcReplay(t *testing.T) {\n")
	var args []string
	var canaries []string
	for _, p := range params {
		v := "a_" + p.Name
		switch p.Kind {
		case "int":
			fmt.Fprintf(&sb, "\tvar %s %s = %d\n", v, p.GoType, p.Int)
		case "bool":
			fmt.Fprintf(&sb, "\tvar %s %s = %v\n", v, p.GoType, p.Bool)
		case "string":
			fmt.Fprintf(&sb, "\tvar %s %s = %s(%s)\n", v, p.GoType, p.GoType, goBytesLit(p.Str))
		case "bytes":
			if p.IsNil {
				fmt.Fprintf(&sb, "\tvar %s %s\n", v, p.GoType)
				break
			}
			capN, off := p.Cap, p.Off
			if capN > 1<<26 {
				return "", fmt.Sprintf("model needs a %d-byte buffer; not replayed", capN)
			}
			if off > 1<<20 {
				off = 0
			}
			fmt.Fprintf(&sb, "\tback_%s := make([]byte, %d)\n\tfor i := range back_%s { back_%s[i] = byte(0xA5 ^ i) }\n", p.Name, off+capN, p.Name, p.Name)
			fmt.Fprintf(&sb, "\tcopy(back_%s[%d:], %s)\n", p.Name, off, goBytesLit(p.Data))
			fmt.Fprintf(&sb, "\t%s := %s(back_%s[%d:%d:%d])\n", v, p.GoType, p.Name, off, off+p.Len, off+capN)
			fmt.Fprintf(&sb, "\tsnap_%s := append([]byte(nil), back_%s...)\n", p.Name, p.Name)
			canaries = append(canaries, p.Name)
		default:
			return "", "parameter " + p.Name + " of type " + p.GoType + " cannot be built from a model"
		}
		args = append(args, v)
	}
	// variadic?
	call := fn.Name() + "(" + strings.Join(args, ", ")
	if fn.Signature.Variadic() {
		call += "..."
	}
	call += ")"
	nres := fn.Signature.Results().Len()
	var rnames []string
	for i := 0; i < nres; i++ {
		rnames = append(rnames, fmt.Sprintf("r%d", i))
	}
	sb.WriteString("\tvar panicked interface{}\n\t_ = panicked\n")
	for i := 0; i < nres; i++ {
		fmt.Fprintf(&sb, "\tvar r%d %s\n", i, types.TypeString(fn.Signature.Results().At(i).Type(), func(pk *types.Package) string {
			if pk == pkg {
				return ""
			}
			return pk.Name()
		}))
	}
	sb.WriteString("\tfunc() {\n\t\tdefer func() { panicked = recover() }()\n\t\t")
	if nres > 0 {
		sb.WriteString(strings.Join(rnames, ", ") + " = ")
	}
	sb.WriteString(call + "\n\t}()\n")
	for i := 0; i < nres; i++ {
		fmt.Fprintf(&sb, "\t_ = r%d\n", i)
	}
	switch o.Kind {
	case "frame":
		sb.WriteString("\tchanged := false\n")
		for _, c := range canaries {
			fmt.Fprintf(&sb, "\tif !bytes.Equal(back_%s, snap_%s) { changed = true; fmt.Printf(\"caller memory of %s changed:\\n before %%x\\n after  %%x\\n\", snap_%s, back_%s) }\n", c, c, c, c, c)
		}
		sb.WriteString("\tif changed { fmt.Println(\"GOVC-REPLAY: REPRODUCED\") } else { fmt.Println(\"GOVC-REPLAY: NOT-REPRODUCED\") }\n")
	case "idx", "slice", "nil", "div", "make", "assert", "panic", "conv", "shift", "pre":
		sb.WriteString("\tif panicked != nil { fmt.Printf(\"panic: %v\\n\", panicked); fmt.Println(\"GOVC-REPLAY: REPRODUCED\") } else { fmt.Println(\"GOVC-REPLAY: NOT-REPRODUCED\") }\n")
	default:
		sb.WriteString("\tif panicked != nil { fmt.Printf(\"panic: %v\\n\", panicked) }\n")
		sb.WriteString("\tfmt.Printf(\"results: %v\\n\", []interface{}{" + strings.Join(rnames, ", ") + "})\n")
		sb.WriteString("\tfmt.Println(\"GOVC-REPLAY: NO-ORACLE\")\n")
	}
	sb.WriteString("}\n")
	return sb.String(), ""
}

// runReplay executes the generated test against the real code with go test -overlay.
func runReplay(w *World, pkgPath, src, scratch string) (verdict, output string) {
	rel := strings.TrimPrefix(strings.TrimPrefix(pkgPath, w.modulePath), "/")
	dir := filepath.Join(w.repo, rel)
	testFile := filepath.Join(scratch, "zz_govc_replay_test.go")
	os.WriteFile(testFile, []byte(src), 0o644)
	ov := map[string]interface{}{"Replace": map[string]string{filepath.Join(dir, "zz_govc_replay_test.go"): testFile}}
	ovb, _ := json.Marshal(ov)
	ovFile := filepath.Join(scratch, "overlay.json")
	os.WriteFile(ovFile, ovb, 0o644)
	ctx, cancel := context.WithTimeout(context.Background(), 180*time.Second)
	defer cancel()
	cmd := exec.CommandContext(ctx, "bash", "-c", fmt.Sprintf("ulimit -v 8000000; cd %q && go test -tags verif,unit -overlay %q -vet=off -count=1 -timeout 120s -run '^TestGovcReplay$' -v .", dir, ovFile))
	cmd.Env = append(os.Environ(), "GOFLAGS=-mod=mod", "GOPROXY=off", "GOSUMDB=off", "GOTOOLCHAIN=local")
	var out bytes.Buffer
	cmd.Stdout = &out
	cmd.Stderr = &out
	cmd.Run()
	output = out.String()
	switch {
	case strings.Contains(output, "GOVC-REPLAY: REPRODUCED"):
		verdict = "REPRODUCED"
	case strings.Contains(output, "GOVC-REPLAY: NOT-REPRODUCED"):
		verdict = "NOT-REPRODUCED"
	case strings.Contains(output, "GOVC-REPLAY: NO-ORACLE"):
		verdict = "NO-ORACLE"
	default:
		verdict = "REPLAY-ERROR"
	}
	if len(output) > 6000 {
		output = output[:6000] + "\n…"
	}
	return
}

// ---------- template-driven replay (methods, interface doubles) ----------

// templateReplay fills /verif/replaytmpl/<name>.go.tmpl with the model's values of the contract's
// "replay val" expressions and returns the test source.
func (e *Enc) templateReplay(o *Oblig, scratch string) (src string, vals map[string]interface{}, why string) {
	if e.fc == nil || e.fc.ReplayTmpl == "" {
		return "", nil, "no replay template"
	}
	var names []string
	var terms []Term
	var strNames []string
	var extraTerms []Term
	const maxStr = 64
	for _, rv := range e.fc.ReplayVals {
		sv, ok := e.replayTerm[rv.Name]
		if !ok {
			continue
		}
		if sv.Sort == "Str" {
			// strings: length plus the first maxStr characters
			strNames = append(strNames, rv.Name)
			extraTerms = append(extraTerms, sx("str-len", sv.T))
			for k := 0; k < maxStr; k++ {
				extraTerms = append(extraTerms, tSel(sx("str-data", sv.T), tInt(int64(k))))
			}
			continue
		}
		names = append(names, rv.Name)
		terms = append(terms, sv.T)
	}
	if len(terms) == 0 && len(strNames) == 0 {
		return "", nil, "no replay values"
	}
	// small models first: bound every integer replay value
	var small []Term
	for i, n := range names {
		if e.replayTerm[n].Sort == "Int" {
			small = append(small, tLe(terms[i], "4096"), tLe("(- 4096)", terms[i]))
		}
	}
	for _, n := range strNames {
		small = append(small, tLe(sx("str-len", e.replayTerm[n].T), tInt(maxStr)))
	}
	allTerms := append(append([]Term{}, terms...), extraTerms...)
	tag := sanitize(o.Name)
	st, got, raw := runZ3Values(e.qfQuery(o, small, allTerms), scratch, tag+"_t1", 5)
	if st != "sat" {
		st, got, raw = runZ3Values(e.qfQuery(o, nil, allTerms), scratch, tag+"_t2", 10)
	}
	if st != "sat" {
		return "", nil, "quantifier-free weakening: " + firstLines(raw, 2)
	}
	vals = map[string]interface{}{}
	for i, n := range names {
		v := got[parseSx(terms[i]).String()]
		switch e.replayTerm[n].Sort {
		case "Bool":
			vals[n] = v == "true"
		default:
			iv, _ := smtIntValue(v)
			vals[n] = iv
		}
	}
	for _, n := range strNames {
		t := e.replayTerm[n].T
		ln, _ := smtIntValue(got[parseSx(sx("str-len", t)).String()])
		var bs []byte
		for k := int64(0); k < ln && k < maxStr; k++ {
			c, _ := smtIntValue(got[parseSx(tSel(sx("str-data", t), tInt(k))).String()])
			bs = append(bs, byte(((c%256)+256)%256))
		}
		vals[n] = strconv.Quote(string(bs)) // a Go string literal
	}
	vals["Label"] = o.Label
	vals["Kind"] = o.Kind
	vals["Obligation"] = o.Name
	tb, err := os.ReadFile(filepath.Join(e.W.verif, "replaytmpl", e.fc.ReplayTmpl+".go.tmpl"))
	if err != nil {
		return "", vals, "template missing: " + err.Error()
	}
	t, err := template.New("replay").Parse(string(tb))
	if err != nil {
		return "", vals, "template does not parse: " + err.Error()
	}
	var out bytes.Buffer
	if err := t.Execute(&out, vals); err != nil {
		return "", vals, "template failed: " + err.Error()
	}
	return out.String(), vals, ""
}
