package main

import (
	"fmt"
	"go/token"
	"go/types"
	"os"
	"path/filepath"
	"sort"
	"strings"

	"golang.org/x/tools/go/packages"
	"golang.org/x/tools/go/ssa"
	"golang.org/x/tools/go/ssa/ssautil"
)

type World struct {
	calleeLockMemo map[*ssa.Function][]calleeLock
	fset           *token.FileSet
	prog           *ssa.Program
	pkgs           []*packages.Package
	spkgs          []*ssa.Package
	C              *Contracts
	typeIDs        map[string]int
	typeByID       map[int]types.Type
	implFns        map[string]types.Type
	pkgByName      map[string]*types.Package
	modulePath     string
	repo           string
	verif          string
	funcs          map[string]*ssa.Function
	loadS          float64
	inlineOK       map[*ssa.Function]bool
	renamed        map[string]map[string]string // contract key -> recorded name -> current name (see names.go)
}

func (w *World) typeID(t types.Type) int {
	k := types.TypeString(t, nil)
	if id, ok := w.typeIDs[k]; ok {
		return id
	}
	id := len(w.typeIDs) + 1
	w.typeIDs[k] = id
	w.typeByID[id] = t
	return id
}

func (w *World) typeIDByName(name string) int {
	if id, ok := w.typeIDs[name]; ok {
		return id
	}
	if t := w.lookupType(name); t != nil {
		return w.typeID(t)
	}
	id := len(w.typeIDs) + 1
	w.typeIDs[name] = id
	return id
}

// lookupType resolves "pkg/path.Name" or "*pkg/path.Name".
func (w *World) lookupType(name string) types.Type {
	ptr := false
	if strings.HasPrefix(name, "*") {
		ptr = true
		name = name[1:]
	}
	i := strings.LastIndex(name, ".")
	if i < 0 {
		if obj := types.Universe.Lookup(name); obj != nil {
			return obj.Type()
		}
		return nil
	}
	path, tn := name[:i], name[i+1:]
	var found types.Type
	for _, p := range w.allTypesPkgs() {
		if p.Path() == path {
			if obj := p.Scope().Lookup(tn); obj != nil {
				found = obj.Type()
			}
		}
	}
	if found == nil {
		return nil
	}
	if ptr {
		return types.NewPointer(found)
	}
	return found
}

func (w *World) allTypesPkgs() []*types.Package {
	var out []*types.Package
	seen := map[*types.Package]bool{}
	var visit func(p *types.Package)
	visit = func(p *types.Package) {
		if seen[p] {
			return
		}
		seen[p] = true
		out = append(out, p)
		for _, q := range p.Imports() {
			visit(q)
		}
	}
	for _, p := range w.pkgs {
		if p.Types != nil {
			visit(p.Types)
		}
	}
	return out
}

func (w *World) typeContract(t types.Type) *TypeContract {
	t = stripTypeArgs(t)
	n, ok := t.(*types.Named)
	if !ok {
		return nil
	}
	key := n.Obj().Name()
	if n.Obj().Pkg() != nil {
		key = n.Obj().Pkg().Path() + "." + key
	}
	return w.C.Types[key]
}

const contractFile = "zz_contracts_verif.go"

// findContractDirs lists the package directories of the repo that carry contract files.
func findContractDirs(repo string) []string {
	var dirs []string
	filepath.Walk(repo, func(p string, info os.FileInfo, err error) error {
		if err != nil {
			return nil
		}
		if info.IsDir() && (info.Name() == ".git" || info.Name() == "vendor") {
			return filepath.SkipDir
		}
		if !info.IsDir() && info.Name() == contractFile {
			dirs = append(dirs, filepath.Dir(p))
		}
		return nil
	})
	sort.Strings(dirs)
	return dirs
}

func readModulePath(repo string) string {
	b, err := os.ReadFile(filepath.Join(repo, "go.mod"))
	if err != nil {
		return ""
	}
	for _, l := range strings.Split(string(b), "\n") {
		if strings.HasPrefix(l, "module ") {
			return strings.TrimSpace(l[7:])
		}
	}
	return ""
}

// loadWorld loads contracts and the given package directories (relative import patterns) of the repo.
func loadWorld(repo, verif string, pkgDirs []string) (*World, error) {
	w := &World{repo: repo, verif: verif, typeIDs: map[string]int{}, typeByID: map[int]types.Type{}, implFns: map[string]types.Type{},
		pkgByName: map[string]*types.Package{}, funcs: map[string]*ssa.Function{}}
	w.modulePath = readModulePath(repo)
	w.C = newContracts()
	if err := w.C.loadLibspecs(filepath.Join(verif, "libspec")); err != nil {
		return nil, err
	}
	for _, d := range findContractDirs(repo) {
		rel, _ := filepath.Rel(repo, d)
		pkgPath := w.modulePath
		if rel != "." {
			pkgPath += "/" + filepath.ToSlash(rel)
		}
		if err := w.C.loadFile(filepath.Join(d, contractFile), pkgPath, false); err != nil {
			w.C.LoadErrors = append(w.C.LoadErrors, loadError{Pkg: pkgPath, Err: err.Error()})
		}
	}
	var patterns []string
	for _, d := range pkgDirs {
		patterns = append(patterns, d)
	}
	cfg := &packages.Config{
		Mode:       packages.NeedName | packages.NeedFiles | packages.NeedCompiledGoFiles | packages.NeedImports | packages.NeedDeps | packages.NeedTypes | packages.NeedSyntax | packages.NeedTypesInfo | packages.NeedTypesSizes,
		Dir:        repo,
		BuildFlags: []string{"-tags=verif"},
		Env:        append(os.Environ(), "GOFLAGS=-mod=mod", "GOPROXY=off", "GOSUMDB=off", "GOTOOLCHAIN=local"),
	}
	pkgs, err := packages.Load(cfg, patterns...)
	if err != nil {
		return nil, err
	}
	for _, p := range pkgs {
		for _, e := range p.Errors {
			return nil, fmt.Errorf("package %s: %v", p.PkgPath, e)
		}
	}
	w.pkgs = pkgs
	if len(pkgs) > 0 {
		w.fset = pkgs[0].Fset
	}
	prog, spkgs := ssautil.AllPackages(pkgs, ssa.GlobalDebug)
	w.prog = prog
	for _, sp := range spkgs {
		if sp != nil {
			sp.Build()
			w.spkgs = append(w.spkgs, sp)
		}
	}
	for _, tp := range w.allTypesPkgs() {
		if _, ok := w.pkgByName[tp.Name()]; !ok {
			w.pkgByName[tp.Name()] = tp
		}
	}
	// prefer standard-library packages for short names used in libspecs
	for _, tp := range w.allTypesPkgs() {
		if !strings.Contains(tp.Path(), ".") {
			if cur, ok := w.pkgByName[tp.Name()]; !ok || strings.Contains(cur.Path(), ".") || len(tp.Path()) < len(cur.Path()) {
				w.pkgByName[tp.Name()] = tp
			}
		}
	}
	w.indexFunctions()
	if os.Getenv("GOVC_NO_ALIASES") == "" {
		w.applyNameAliases()
	}
	return w, nil
}

func (w *World) indexFunctions() {
	var add func(f *ssa.Function)
	add = func(f *ssa.Function) {
		if f == nil {
			return
		}
		k := f.String()
		if _, ok := w.funcs[k]; ok {
			return
		}
		w.funcs[k] = f
		for _, a := range f.AnonFuncs {
			add(a)
		}
	}
	for _, sp := range w.spkgs {
		inRepo := false
		for _, p := range w.pkgs {
			if p.PkgPath == sp.Pkg.Path() {
				inRepo = true
			}
		}
		if !inRepo {
			continue
		}
		for _, m := range sp.Members {
			switch m := m.(type) {
			case *ssa.Function:
				add(m)
			case *ssa.Type:
				t := m.Type()
				n, ok := t.(*types.Named)
				if !ok {
					continue
				}
				for i := 0; i < n.NumMethods(); i++ {
					add(w.prog.FuncValue(n.Method(i)))
				}
			}
		}
	}
}

// normalizeFnKey strips type arguments / parameters of generic receivers: "(*p.Ring[T]).Len" -> "(*p.Ring).Len".
func normalizeFnKey(k string) string {
	for {
		i := strings.Index(k, "[")
		if i < 0 {
			return k
		}
		depth := 0
		j := i
		for ; j < len(k); j++ {
			if k[j] == '[' {
				depth++
			} else if k[j] == ']' {
				depth--
				if depth == 0 {
					break
				}
			}
		}
		if j >= len(k) {
			return k
		}
		k = k[:i] + k[j+1:]
	}
}

func (w *World) findFunction(key string) *ssa.Function {
	if f, ok := w.funcs[key]; ok {
		return f
	}
	nk := normalizeFnKey(key)
	for k, f := range w.funcs {
		if normalizeFnKey(k) == nk {
			return f
		}
	}
	return nil
}
