package main

import (
	"bytes"
	"context"
	"fmt"
	"os"
	"os/exec"
	"path/filepath"
	"strings"
	"sync"
	"time"
)

type solverSpec struct {
	name string
	args func(file string, timeoutS int) []string
}

var solvers = []solverSpec{
	{"z3-new", func(f string, t int) []string { return []string{"z3-new", fmt.Sprintf("-T:%d", t), f} }},
	{"z3", func(f string, t int) []string { return []string{"z3", fmt.Sprintf("-T:%d", t), f} }},
	{"cvc5", func(f string, t int) []string {
		return []string{"cvc5", "--lang=smt2", fmt.Sprintf("--tlimit=%d", t*1000), f}
	}},
}

type solveResult struct {
	status string // unsat | sat | unknown | timeout | error
	solver string
	timeS  float64
	output string
}

func runSolver(ctx context.Context, sp solverSpec, file string, timeoutS int) solveResult {
	args := sp.args(file, timeoutS)
	cctx, cancel := context.WithTimeout(ctx, time.Duration(timeoutS+2)*time.Second)
	defer cancel()
	cmd := exec.CommandContext(cctx, args[0], args[1:]...)
	var out bytes.Buffer
	cmd.Stdout = &out
	cmd.Stderr = &out
	t0 := time.Now()
	cmd.Run()
	dt := time.Since(t0).Seconds()
	s := out.String()
	first := strings.TrimSpace(strings.SplitN(s, "\n", 2)[0])
	res := solveResult{solver: sp.name, timeS: dt, output: s}
	switch {
	case first == "unsat":
		res.status = "unsat"
	case first == "sat":
		res.status = "sat"
	case first == "unknown":
		res.status = "unknown"
	case strings.Contains(first, "timeout") || cctx.Err() != nil:
		res.status = "timeout"
	default:
		res.status = "error"
	}
	return res
}

// buildQuery renders the SMT-LIB text of one obligation.
func (e *Enc) buildQuery(o *Oblig, wantModel bool) string {
	var sb strings.Builder
	sb.WriteString(preamble)
	for _, d := range e.decls {
		sb.WriteString(d)
		sb.WriteByte('\n')
	}
	for _, a := range e.finalAxioms() {
		sb.WriteString("(assert " + a + ")\n")
	}
	for _, a := range e.asm[:o.NAssume] {
		sb.WriteString("(assert " + a + ")\n")
	}
	if o.Reach != tTrue {
		sb.WriteString("(assert " + o.Reach + ")\n")
	}
	sb.WriteString("(assert (not " + o.Goal + "))\n")
	if strings.Contains(sb.String(), "(subref ") {
		sb.WriteString(subrefAxiom)
	}
	sb.WriteString("(check-sat)\n")
	if wantModel {
		sb.WriteString("(get-model)\n")
	}
	return sb.String()
}

// buildCover renders a satisfiability query: assumptions plus reach, no negated goal.
func (e *Enc) buildCover(nAssume int, reach Term) string {
	var sb strings.Builder
	sb.WriteString(preamble)
	for _, d := range e.decls {
		sb.WriteString(d)
		sb.WriteByte('\n')
	}
	for _, a := range e.finalAxioms() {
		sb.WriteString("(assert " + a + ")\n")
	}
	for _, a := range e.asm[:nAssume] {
		sb.WriteString("(assert " + a + ")\n")
	}
	if reach != tTrue {
		sb.WriteString("(assert " + reach + ")\n")
	}
	if strings.Contains(sb.String(), "(subref ") {
		sb.WriteString(subrefAxiom)
	}
	sb.WriteString("(check-sat)\n")
	return sb.String()
}

func (e *Enc) finalAxioms() []Term {
	if e.finalAx != nil {
		return e.finalAx
	}
	ax := append([]Term{}, e.axioms...)
	// interface-implementation facts for every known concrete type id
	seen := map[string]bool{}
	for _, u := range e.implUsed {
		if seen[u.fn] {
			continue
		}
		seen[u.fn] = true
		for id, t := range e.W.typeByID {
			v := tFalse
			if implementsIface(t, u.it) {
				v = tTrue
			}
			ax = append(ax, tEq(sx(u.fn, tInt(int64(id))), v))
		}
	}
	for _, n := range e.heapOrder {
		if strings.HasPrefix(n, "$defer") {
			ax = append(ax, tNot(smtName(n+"@0")))
		}
	}
	e.finalAx = ax
	if e.finalAx == nil {
		e.finalAx = []Term{}
	}
	return e.finalAx
}

type job struct {
	enc   *Enc
	o     *Oblig
	cover bool
	query string
}

// discharge runs all pending obligations of the encoders in parallel.
func discharge(encs []*Enc, scratch string, timeoutS int, workers int, twoSolver bool) {
	var jobs []*job
	for _, e := range encs {
		for _, o := range e.obls {
			if o.Status != "" {
				continue
			}
			jobs = append(jobs, &job{enc: e, o: o})
		}
	}
	var wg sync.WaitGroup
	ch := make(chan *job)
	var ctr int64
	var mu sync.Mutex
	for i := 0; i < workers; i++ {
		wg.Add(1)
		go func() {
			defer wg.Done()
			for j := range ch {
				mu.Lock()
				ctr++
				id := ctr
				mu.Unlock()
				file := filepath.Join(scratch, fmt.Sprintf("q%d.smt2", id))
				var q string
				if j.cover {
					q = j.query
				} else {
					q = j.enc.buildQuery(j.o, false)
				}
				os.WriteFile(file, []byte(q), 0o644)
				solveOne(j.o, file, timeoutS, j.cover, twoSolver)
				if j.o.Status == "proved" {
					os.Remove(file)
				} else {
					j.o.Output += "\nquery: " + file
				}
			}
		}()
	}
	for _, j := range jobs {
		ch <- j
	}
	close(ch)
	wg.Wait()
}

// solveOne: stage 1 z3-new with a short limit; stage 2 all three solvers in parallel.
func solveOne(o *Oblig, file string, timeoutS int, cover bool, twoSolver bool) {
	ctx := context.Background()
	want := "unsat"
	t0 := time.Now()
	short := 3
	if timeoutS < short {
		short = timeoutS
	}
	r := runSolver(ctx, solvers[0], file, short)
	var outs []string
	outs = append(outs, fmt.Sprintf("[%s %.2fs] %s", r.solver, r.timeS, firstLines(r.output, 3)))
	agree := 0
	if r.status == want {
		agree++
		if !twoSolver {
			o.Status, o.Solver, o.TimeS = "proved", r.solver, time.Since(t0).Seconds()
			return
		}
	}
	if r.status == "sat" && !cover {
		o.Status, o.Solver, o.TimeS = "failed", r.solver, time.Since(t0).Seconds()
		o.Output = strings.Join(outs, "\n")
		return
	}
	// stage 2
	cctx, cancel := context.WithCancel(ctx)
	defer cancel()
	resCh := make(chan solveResult, len(solvers))
	n := 0
	for i, sp := range solvers {
		if i == 0 && (r.status == want || short == timeoutS) {
			continue
		}
		n++
		go func(sp solverSpec) { resCh <- runSolver(cctx, sp, file, timeoutS) }(sp)
	}
	need := 1
	if twoSolver {
		need = 2
	}
	winner := r.solver
	sat := ""
	for i := 0; i < n; i++ {
		rr := <-resCh
		outs = append(outs, fmt.Sprintf("[%s %.2fs] %s", rr.solver, rr.timeS, firstLines(rr.output, 3)))
		if rr.status == want {
			agree++
			if agree == 1 {
				winner = rr.solver
			} else {
				winner += "+" + rr.solver
			}
			if agree >= need {
				break
			}
		}
		if rr.status == "sat" {
			sat = rr.solver
		}
	}
	cancel()
	o.TimeS = time.Since(t0).Seconds()
	o.Output = strings.Join(outs, "\n")
	if agree >= need {
		o.Status, o.Solver = "proved", winner
		return
	}
	if sat != "" {
		o.Status, o.Solver = "failed", sat
		return
	}
	if agree > 0 { // thorough mode wanted two, got one
		o.Status, o.Solver = "proved", winner+"(single)"
		return
	}
	o.Status = "unknown"
}

func firstLines(s string, n int) string {
	ls := strings.Split(strings.TrimSpace(s), "\n")
	if len(ls) > n {
		ls = ls[:n]
	}
	return strings.Join(ls, " | ")
}
