package main

// Robustness against renamed parameters, results and locals.
//
// Contracts live in comment-only files beside the code and name parameters, named results and (in loop invariants and
// at-clauses) local variables. A maintainer who renames a local without changing behaviour would otherwise turn every
// clause that mentions it into an "unknown identifier" failure, i.e. a false alarm. /verif/contracts_names.json records,
// for every function under contract, the names the contracts were written against (`govc names` regenerates it from the
// tree). When the current code no longer has one of those names, the recorded name is mapped to the variable that took
// its place: parameters, results and captured variables by position, locals by declaration order among the variables
// that are new (same count, same types). The contract's identifiers are rewritten accordingly before anything is
// generated. A name that still exists is never remapped, so nothing that verified before verifies differently.

import (
	"encoding/json"
	"fmt"
	"go/types"
	"os"
	"path/filepath"
	"sort"

	"golang.org/x/tools/go/ssa"
)

type localName struct {
	Name string `json:"name"`
	Type string `json:"type"`
}

type fnNames struct {
	Params  []string    `json:"params"`
	Results []string    `json:"results,omitempty"`
	Free    []string    `json:"free,omitempty"`
	Locals  []localName `json:"locals,omitempty"`
}

func namesFile() string { return filepath.Join(verifDir, "contracts_names.json") }

func namesOf(fn *ssa.Function) fnNames {
	var n fnNames
	seen := map[string]bool{}
	for _, p := range fn.Params {
		n.Params = append(n.Params, p.Name())
		seen[p.Name()] = true
	}
	if fn.Signature != nil {
		for i := 0; i < fn.Signature.Results().Len(); i++ {
			r := fn.Signature.Results().At(i).Name()
			n.Results = append(n.Results, r)
			if r != "" {
				seen[r] = true
			}
		}
	}
	for _, fv := range fn.FreeVars {
		n.Free = append(n.Free, fv.Name())
		seen[fv.Name()] = true
	}
	type lv struct {
		obj *types.Var
	}
	objs := map[*types.Var]bool{}
	for _, b := range fn.Blocks {
		for _, in := range b.Instrs {
			if d, ok := in.(*ssa.DebugRef); ok {
				if v, ok := d.Object().(*types.Var); ok && !v.IsField() {
					objs[v] = true
				}
			}
		}
	}
	var vs []*types.Var
	for v := range objs {
		if v.Name() == "_" || v.Name() == "" {
			continue
		}
		if v.Pkg() != nil && v.Parent() == v.Pkg().Scope() {
			continue // a package-level variable, not a local
		}
		vs = append(vs, v)
	}
	sort.Slice(vs, func(i, j int) bool {
		if vs[i].Pos() != vs[j].Pos() {
			return vs[i].Pos() < vs[j].Pos()
		}
		ti, tj := types.TypeString(vs[i].Type(), nil), types.TypeString(vs[j].Type(), nil)
		if ti != tj {
			return ti < tj
		}
		return vs[i].Name() < vs[j].Name()
	})
	params := map[string]bool{}
	for k := range seen {
		params[k] = true
	}
	for _, v := range vs {
		if params[v.Name()] && isSigVar(fn, v) {
			continue
		}
		n.Locals = append(n.Locals, localName{Name: v.Name(), Type: types.TypeString(v.Type(), nil)})
	}
	return n
}

// isSigVar: v is a parameter, receiver or named result of fn (or a captured variable), not a body-level local.
func isSigVar(fn *ssa.Function, v *types.Var) bool {
	sig := fn.Signature
	if sig == nil {
		return false
	}
	if sig.Recv() == v {
		return true
	}
	for i := 0; i < sig.Params().Len(); i++ {
		if sig.Params().At(i) == v {
			return true
		}
	}
	for i := 0; i < sig.Results().Len(); i++ {
		if sig.Results().At(i) == v {
			return true
		}
	}
	if obj, ok := fn.Object().(*types.Func); ok && obj != nil {
		if s, ok := obj.Type().(*types.Signature); ok {
			if s.Recv() == v {
				return true
			}
			for i := 0; i < s.Params().Len(); i++ {
				if s.Params().At(i) == v {
					return true
				}
			}
			for i := 0; i < s.Results().Len(); i++ {
				if s.Results().At(i) == v {
					return true
				}
			}
		}
	}
	for _, fv := range fn.FreeVars {
		if fv.Name() == v.Name() {
			return true
		}
	}
	return false
}

// nameAliases maps recorded names that no longer exist to the names that replaced them.
func nameAliases(old, cur fnNames) map[string]string {
	has := map[string]bool{}
	for _, s := range cur.Params {
		has[s] = true
	}
	for _, s := range cur.Results {
		if s != "" {
			has[s] = true
		}
	}
	for _, s := range cur.Free {
		has[s] = true
	}
	for _, l := range cur.Locals {
		has[l.Name] = true
	}
	al := map[string]string{}
	byPos := func(o, c []string) {
		if len(o) != len(c) {
			return
		}
		for i := range o {
			if o[i] != c[i] && o[i] != "" && o[i] != "_" && c[i] != "" && c[i] != "_" && !has[o[i]] {
				al[o[i]] = c[i]
			}
		}
	}
	byPos(old.Params, cur.Params)
	byPos(old.Results, cur.Results)
	byPos(old.Free, cur.Free)
	oldHas := map[string]bool{}
	for _, s := range old.Params {
		oldHas[s] = true
	}
	for _, s := range old.Results {
		oldHas[s] = true
	}
	for _, s := range old.Free {
		oldHas[s] = true
	}
	for _, l := range old.Locals {
		oldHas[l.Name] = true
	}
	// locals: the recorded names that vanished, against the current names that are new, in declaration order
	var gone, fresh []localName
	dup := map[string]bool{}
	for _, l := range old.Locals {
		if !has[l.Name] && !dup["o"+l.Name] {
			if _, done := al[l.Name]; !done {
				gone = append(gone, l)
			}
			dup["o"+l.Name] = true
		}
	}
	aliased := map[string]bool{}
	for _, v := range al {
		aliased[v] = true
	}
	for _, l := range cur.Locals {
		if !oldHas[l.Name] && !aliased[l.Name] && !dup["c"+l.Name] {
			fresh = append(fresh, l)
			dup["c"+l.Name] = true
		}
	}
	if len(gone) == len(fresh) {
		ok := true
		for i := range gone {
			if gone[i].Type != fresh[i].Type {
				ok = false
			}
		}
		if ok {
			for i := range gone {
				al[gone[i].Name] = fresh[i].Name
			}
		}
	}
	return al
}

func renameExpr(x SExpr, al map[string]string, bound map[string]bool) SExpr {
	switch x := x.(type) {
	case nil:
		return nil
	case *SIdent:
		if n, ok := al[x.Name]; ok && !bound[x.Name] {
			return &SIdent{Name: n}
		}
		return x
	case *SLit:
		return x
	case *SBin:
		return &SBin{Op: x.Op, L: renameExpr(x.L, al, bound), R: renameExpr(x.R, al, bound)}
	case *SUn:
		return &SUn{Op: x.Op, X: renameExpr(x.X, al, bound)}
	case *SCall:
		c := &SCall{Fn: x.Fn}
		// the callee position holds spec builtins / pure functions, never a variable
		for _, a := range x.Args {
			c.Args = append(c.Args, renameExpr(a, al, bound))
		}
		return c
	case *SSel:
		return &SSel{X: renameExpr(x.X, al, bound), Sel: x.Sel}
	case *SIndex:
		return &SIndex{X: renameExpr(x.X, al, bound), I: renameExpr(x.I, al, bound)}
	case *SSliceE:
		return &SSliceE{X: renameExpr(x.X, al, bound), Lo: renameExpr(x.Lo, al, bound), Hi: renameExpr(x.Hi, al, bound)}
	case *SQuant:
		b2 := map[string]bool{}
		for k := range bound {
			b2[k] = true
		}
		for _, v := range x.Vars {
			b2[v.Name] = true
		}
		return &SQuant{Forall: x.Forall, Vars: x.Vars, Body: renameExpr(x.Body, al, b2)}
	case *SCond:
		return &SCond{C: renameExpr(x.C, al, bound), A: renameExpr(x.A, al, bound), B: renameExpr(x.B, al, bound)}
	case *SLambda:
		b2 := map[string]bool{}
		for k := range bound {
			b2[k] = true
		}
		b2[x.Var] = true
		return &SLambda{Sort: x.Sort, Var: x.Var, Body: renameExpr(x.Body, al, b2)}
	}
	return x
}

func renameClauses(cs []Clause, al map[string]string, bound map[string]bool) {
	for i := range cs {
		cs[i].Expr = renameExpr(cs[i].Expr, al, bound)
	}
}

func (fc *FuncContract) rename(al map[string]string) {
	bound := map[string]bool{}
	for _, g := range fc.Ghosts {
		bound[g.Name] = true // a function ghost shadows a variable of the same name
	}
	renameClauses(fc.Requires, al, bound)
	renameClauses(fc.Ensures, al, bound)
	renameClauses(fc.Modifies, al, bound)
	renameClauses(fc.Panics, al, bound)
	renameClauses(fc.IntRequires, al, bound)
	renameClauses(fc.IntEnsures, al, bound)
	for _, l := range fc.Loops {
		renameClauses(l.Invs, al, bound)
		if l.Decreases != nil {
			l.Decreases.Expr = renameExpr(l.Decreases.Expr, al, bound)
		}
	}
	for i := range fc.Ats {
		fc.Ats[i].TExpr = renameExpr(fc.Ats[i].TExpr, al, bound)
		fc.Ats[i].Clause.Expr = renameExpr(fc.Ats[i].Clause.Expr, al, bound)
	}
	for i := range fc.ReplayVals {
		fc.ReplayVals[i].Expr = renameExpr(fc.ReplayVals[i].Expr, al, bound)
	}
	for i, r := range fc.Results {
		if n, ok := al[r]; ok {
			fc.Results[i] = n
		}
	}
}

// applyNameAliases rewrites the contracts of functions whose variables were renamed since the names were recorded.
func (w *World) applyNameAliases() {
	b, err := os.ReadFile(namesFile())
	if err != nil {
		return
	}
	var rec map[string]fnNames
	if json.Unmarshal(b, &rec) != nil {
		return
	}
	w.renamed = map[string]map[string]string{}
	for key, fc := range w.C.Funcs {
		if fc.Trusted {
			continue
		}
		old, ok := rec[key]
		if !ok {
			continue
		}
		fn := w.findFunction(key)
		if fn == nil || len(fn.Blocks) == 0 {
			continue
		}
		al := nameAliases(old, namesOf(fn))
		if len(al) == 0 {
			continue
		}
		fc.rename(al)
		w.renamed[key] = al
	}
}

func cmdNames(args []string) int {
	c, _, err := loadAllContracts()
	if err != nil {
		fmt.Fprintln(os.Stderr, err)
		return 2
	}
	dirs := map[string]bool{}
	for key, fc := range c.Funcs {
		if fc.Trusted {
			continue
		}
		if d := pkgDirOfKey(key, readModulePath(repoDir)); d != "" {
			dirs[d] = true
		}
	}
	var ds []string
	for d := range dirs {
		ds = append(ds, d)
	}
	sort.Strings(ds)
	os.Setenv("GOVC_NO_ALIASES", "1")
	w, err := loadWorld(repoDir, verifDir, ds)
	if err != nil {
		fmt.Fprintln(os.Stderr, err)
		return 2
	}
	out := map[string]fnNames{}
	for key, fc := range w.C.Funcs {
		if fc.Trusted {
			continue
		}
		fn := w.findFunction(key)
		if fn == nil || len(fn.Blocks) == 0 {
			continue
		}
		out[key] = namesOf(fn)
	}
	if len(args) > 0 && args[0] == "--check" {
		b, err := os.ReadFile(namesFile())
		var rec map[string]fnNames
		if err != nil || json.Unmarshal(b, &rec) != nil {
			fmt.Println("names: no recorded names")
			return 1
		}
		bad := 0
		for k, n := range out {
			a, _ := json.Marshal(n)
			r, _ := json.Marshal(rec[k])
			if string(a) != string(r) {
				fmt.Printf("names: %s differs from the record\n  now: %s\n  rec: %s\n", k, a, r)
				bad++
			}
		}
		if bad > 0 {
			return 1
		}
		fmt.Printf("names: %d functions match the record\n", len(out))
		return 0
	}
	b, _ := json.MarshalIndent(out, "", " ")
	if err := os.WriteFile(namesFile(), append(b, '\n'), 0o644); err != nil {
		fmt.Fprintln(os.Stderr, err)
		return 2
	}
	fmt.Printf("names: recorded %d functions in %s\n", len(out), namesFile())
	return 0
}
