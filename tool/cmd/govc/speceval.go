package main

import (
	"fmt"
	"go/constant"
	"go/types"
	"math/big"
	"strconv"
	"strings"

	"golang.org/x/tools/go/ssa"
)

func parseBig(s string) *big.Int {
	s = strings.TrimSpace(s)
	neg := false
	if strings.HasPrefix(s, "(- ") {
		neg = true
		s = strings.TrimSuffix(s[3:], ")")
	}
	n := new(big.Int)
	n.SetString(s, 10)
	if neg {
		n.Neg(n)
	}
	return n
}

// SV is the value of a spec expression.
type SV struct {
	T    Term
	Sort string
	GT   types.Type
	Nil  bool
	// pointer cell binding (captured variables): value is load(cell)
}

type ptrVar struct {
	Ref  Term
	Elem types.Type
}

type specEnv struct {
	e        *Enc
	cur, old *State
	vars     map[string]SV
	ptrVars  map[string]ptrVar
	phiSubst map[*ssa.Phi]Val
	atBlock  *ssa.BasicBlock
	noLocals bool
	isCallee bool // evaluating a clause of a callee's contract at a call site: caller-local names (labels, call results) are out of scope
	pkg      *types.Package
	self     *SV
	fnGhost  string // prefix for function-level ghosts
	depth    int

	atInstr         bool
	calleeGhosts    []GhostDecl
	calleeLabels    []string
	inOld           bool
	onlyGhostLocals bool
	top             *State // the live state: function-level ghosts are locals and are not affected by old()
}

type specFail string

func (env *specEnv) fail(f string, a ...interface{}) {
	panic(encErr("spec: " + fmt.Sprintf(f, a...)))
}

func (e *Enc) newSpecEnv(cur, old *State) *specEnv {
	env := &specEnv{e: e, cur: cur, old: old, vars: map[string]SV{}, ptrVars: map[string]ptrVar{}}
	if e.fn.Pkg != nil {
		env.pkg = e.fn.Pkg.Pkg
	} else if e.fn.Origin() != nil && e.fn.Origin().Pkg != nil {
		env.pkg = e.fn.Origin().Pkg.Pkg
	}
	// parameters and receiver
	for _, p := range e.fn.Params {
		env.vars[p.Name()] = SV{T: e.vals[p].T, Sort: e.sortOf(p.Type()), GT: p.Type()}
	}
	for _, fv := range e.fn.FreeVars {
		if pt, ok := fv.Type().Underlying().(*types.Pointer); ok {
			env.ptrVars[fv.Name()] = ptrVar{Ref: e.vals[fv].T, Elem: pt.Elem()}
		}
	}
	env.fnGhost = e.fn.String()
	return env
}

func (env *specEnv) withState(cur, old *State) *specEnv {
	c := *env
	if c.top == nil {
		c.top = env.cur
	}
	c.cur, c.old = cur, old
	return &c
}

func (env *specEnv) live() *State {
	if env.top != nil {
		return env.top
	}
	return env.cur
}

func (env *specEnv) bind(name string, v SV) *specEnv {
	c := *env
	c.vars = map[string]SV{}
	for k, x := range env.vars {
		c.vars[k] = x
	}
	c.vars[name] = v
	return &c
}

func ghostSort(e *Enc, s string) (string, types.Type) {
	s = strings.TrimSpace(s)
	switch s {
	case "int":
		return "Int", nil
	case "bool":
		return "Bool", nil
	case "iface", "error", "any":
		return "Iface", nil
	case "slice":
		return "Slice", nil
	case "string", "str":
		return "Str", nil
	case "ref":
		return "Int", nil
	case "bytes":
		return "(Array Int Int)", nil
	case "tp":
		return "TP", nil
	}
	if obj := types.Universe.Lookup(s); obj != nil {
		if b, ok := obj.Type().(*types.Basic); ok && b.Info()&types.IsInteger != 0 {
			if e != nil && e.bv {
				return fmt.Sprintf("(_ BitVec %d)", intBits(b)), b
			}
			return "Int", nil
		}
	}
	if strings.HasPrefix(s, "[") {
		depth := 0
		for i := 0; i < len(s); i++ {
			if s[i] == '[' {
				depth++
			} else if s[i] == ']' {
				depth--
				if depth == 0 {
					k, _ := ghostSort(e, s[1:i])
					v, _ := ghostSort(e, s[i+1:])
					return fmt.Sprintf("(Array %s %s)", k, v), nil
				}
			}
		}
	}
	if strings.HasPrefix(s, "(") || strings.HasPrefix(s, "smt:") {
		return strings.TrimPrefix(s, "smt:"), nil
	}
	return "Int", nil
}

func (env *specEnv) evalBool(x SExpr) Term {
	v := env.eval(x)
	if v.Sort != "Bool" {
		env.fail("expected bool, got %s in %s", v.Sort, specString(x))
	}
	return v.T
}

func (env *specEnv) evalInt(x SExpr) Term {
	v := env.eval(x)
	if v.Sort != "Int" {
		env.fail("expected int, got %s in %s", v.Sort, specString(x))
	}
	return v.T
}

func isBVSort(s string) bool { return strings.HasPrefix(s, "(_ BitVec") }
func bvWidth(s string) int {
	n, _ := strconv.Atoi(strings.TrimSuffix(strings.TrimPrefix(s, "(_ BitVec "), ")"))
	return n
}

func (env *specEnv) eval(x SExpr) SV {
	e := env.e
	switch x := x.(type) {
	case *SLit:
		switch x.Kind {
		case "int":
			n := new(big.Int)
			n.SetString(x.Val, 0)
			return SV{T: tIntS(n.String()), Sort: "Int"}
		case "bool":
			return SV{T: x.Val, Sort: "Bool"}
		case "nil":
			return SV{Nil: true, Sort: "nil"}
		case "string":
			s, err := strconv.Unquote(x.Val)
			if err != nil {
				env.fail("bad string literal %s", x.Val)
			}
			return SV{T: e.strConst(s), Sort: "Str"}
		case "char":
			r, _, _, err := strconv.UnquoteChar(x.Val[1:len(x.Val)-1], '\'')
			if err != nil {
				env.fail("bad char literal %s", x.Val)
			}
			return SV{T: tInt(int64(r)), Sort: "Int"}
		}
	case *SIdent:
		return env.ident(x.Name)
	case *SUn:
		switch x.Op {
		case "!":
			return SV{T: tNot(env.evalBool(x.X)), Sort: "Bool"}
		case "-":
			v := env.eval(x.X)
			if isBVSort(v.Sort) {
				return SV{T: sx("bvneg", v.T), Sort: v.Sort, GT: v.GT}
			}
			return SV{T: sx("-", v.T), Sort: "Int"}
		case "^":
			v := env.eval(x.X)
			if isBVSort(v.Sort) {
				return SV{T: sx("bvnot", v.T), Sort: v.Sort, GT: v.GT}
			}
			env.fail("^ needs a bit-vector operand")
		case "*":
			v := env.eval(x.X)
			pt, ok := v.GT.Underlying().(*types.Pointer)
			if !ok {
				env.fail("deref of non-pointer %s", specString(x.X))
			}
			l := e.refLoc(v.T, pt.Elem())
			return SV{T: e.load(env.cur, l), Sort: e.sortOf(pt.Elem()), GT: pt.Elem()}
		}
	case *SBin:
		return env.binop(x)
	case *SCond:
		c := env.evalBool(x.C)
		a, b := env.eval(x.A), env.eval(x.B)
		a, b = env.unify(a, b)
		return SV{T: tIte(c, a.T, b.T), Sort: a.Sort, GT: a.GT}
	case *SQuant:
		ne := env
		var binders []string
		var ranges []Term
		for _, v := range x.Vars {
			srt, gt := ghostSort(e, v.Sort)
			if v.Sort == "byte" && !e.bv {
				srt = "Int"
			}
			name := v.Name + "!q"
			ne = ne.bind(v.Name, SV{T: name, Sort: srt, GT: gt})
			binders = append(binders, fmt.Sprintf("(%s %s)", name, srt))
			if v.Sort == "byte" && !e.bv {
				ranges = append(ranges, tAnd(tLe("0", name), tLe(name, "255")))
			}
		}
		body := ne.evalBool(x.Body)
		q := "exists"
		if x.Forall {
			q = "forall"
			body = tImp(tAnd(ranges...), body)
		} else {
			body = tAnd(append(ranges, body)...)
		}
		if len(x.Vars) == 1 && x.Forall && strings.HasSuffix(binders[0], " Int)") {
			nb, pats := normalizeQuant(body, x.Vars[0].Name+"!q")
			body = nb
			if len(pats) > 0 && len(pats) <= 3 {
				var ps []string
				for _, p := range pats {
					ps = append(ps, ":pattern ("+p+")")
				}
				body = "(! " + body + " " + strings.Join(ps, " ") + ")"
			}
		}
		return SV{T: fmt.Sprintf("(%s (%s) %s)", q, strings.Join(binders, " "), body), Sort: "Bool"}
	case *SLambda:
		// array comprehension: a fresh array A with forall j. A[j] == body(j)
		name := x.Var + "!l"
		isrt, igt := "Int", types.Type(nil)
		if x.Sort != "" && x.Sort != "int" {
			isrt, igt = ghostSort(e, x.Sort)
		}
		ne := env.bind(x.Var, SV{T: name, Sort: isrt, GT: igt})
		body := ne.eval(x.Body)
		arr := e.fresh("lambda", fmt.Sprintf("(Array %s %s)", isrt, body.Sort))
		nb := tEq(tSel(arr, name), body.T)
		e.assumeG(fmt.Sprintf("(forall ((%s %s)) (! %s :pattern ((select %s %s))))", name, isrt, nb, arr, name))
		return SV{T: arr, Sort: fmt.Sprintf("(Array %s %s)", isrt, body.Sort)}
	case *SSel:
		return env.sel(x)
	case *SIndex:
		b := env.eval(x.X)
		i := env.eval(x.I)
		return env.index(b, i, x)
	case *SCall:
		return env.call(x)
	case *SSliceE:
		// sub-slice value
		b := env.eval(x.X)
		if b.Sort != "Slice" {
			env.fail("slice expression on %s", b.Sort)
		}
		lo := "0"
		if x.Lo != nil {
			lo = env.evalInt(x.Lo)
		}
		hi := sx("s-len", b.T)
		if x.Hi != nil {
			hi = env.evalInt(x.Hi)
		}
		return SV{T: sx("mk-slice", sx("s-base", b.T), tAdd(sx("s-off", b.T), lo), tSub(hi, lo), tSub(sx("s-cap", b.T), lo)), Sort: "Slice", GT: b.GT}
	}
	env.fail("cannot evaluate %s", specString(x))
	return SV{}
}

// unify gives nil literals and integer literals the sort of the other operand.
func (env *specEnv) unify(a, b SV) (SV, SV) {
	if a.Nil && !b.Nil {
		a = env.nilOf(b)
	} else if b.Nil && !a.Nil {
		b = env.nilOf(a)
	}
	if isBVSort(a.Sort) && b.Sort == "Int" {
		b = env.intToBV(b, a)
	} else if isBVSort(b.Sort) && a.Sort == "Int" {
		a = env.intToBV(a, b)
	}
	return a, b
}

func (env *specEnv) intToBV(i SV, like SV) SV {
	w := bvWidth(like.Sort)
	n := parseBig(i.T)
	if n.Sign() >= 0 && n.String() == i.T {
		return SV{T: fmt.Sprintf("(_ bv%s %d)", n.String(), w), Sort: like.Sort, GT: like.GT}
	}
	if n.Sign() < 0 {
		return SV{T: fmt.Sprintf("(bvneg (_ bv%s %d))", new(big.Int).Neg(n).String(), w), Sort: like.Sort, GT: like.GT}
	}
	return SV{T: sx(fmt.Sprintf("(_ int2bv %d)", w), i.T), Sort: like.Sort, GT: like.GT}
}

func (env *specEnv) nilOf(like SV) SV {
	switch like.Sort {
	case "Slice":
		return SV{T: "nil-slice", Sort: "Slice", GT: like.GT, Nil: true}
	case "Iface":
		return SV{T: "nil-iface", Sort: "Iface", GT: like.GT}
	case "Int":
		return SV{T: "0", Sort: "Int", GT: like.GT}
	}
	env.fail("nil compared with %s", like.Sort)
	return SV{}
}

func (env *specEnv) binop(x *SBin) SV {
	switch x.Op {
	case "&&":
		return SV{T: tAnd(env.evalBool(x.L), env.evalBool(x.R)), Sort: "Bool"}
	case "||":
		return SV{T: tOr(env.evalBool(x.L), env.evalBool(x.R)), Sort: "Bool"}
	case "==>":
		l := env.evalBool(x.L)
		if l == tFalse {
			return SV{T: tTrue, Sort: "Bool"} // the consequent may mention types that are not loaded
		}
		return SV{T: tImp(l, env.evalBool(x.R)), Sort: "Bool"}
	case "<==>":
		return SV{T: tEq(env.evalBool(x.L), env.evalBool(x.R)), Sort: "Bool"}
	}
	a, b := env.eval(x.L), env.eval(x.R)
	a, b = env.unify(a, b)
	switch x.Op {
	case "==", "!=":
		var t Term
		if a.Sort == "Slice" && (a.Nil || b.Nil) {
			o := a
			if a.Nil {
				o = b
			}
			t = tEq(sx("s-base", o.T), "0")
		} else {
			if a.Sort != b.Sort {
				env.fail("comparing %s with %s in %s", a.Sort, b.Sort, specString(x))
			}
			t = tEq(a.T, b.T)
			if a.GT != nil && b.GT != nil && !a.Nil && !b.Nil {
				// channels of different element types are different objects (equal only when both are nil)
				ca, oka := a.GT.Underlying().(*types.Chan)
				cb, okb := b.GT.Underlying().(*types.Chan)
				if oka && okb && !types.Identical(ca.Elem(), cb.Elem()) {
					t = tAnd(t, tEq(a.T, "0"))
				}
			}
		}
		if x.Op == "!=" {
			t = tNot(t)
		}
		return SV{T: t, Sort: "Bool"}
	case "<", "<=", ">", ">=":
		if isBVSort(a.Sort) {
			p := "bvs"
			if a.GT != nil && isUnsigned(a.GT) || b.GT != nil && isUnsigned(b.GT) {
				p = "bvu"
			}
			op := map[string]string{"<": "lt", "<=": "le", ">": "gt", ">=": "ge"}[x.Op]
			return SV{T: sx(p+op, a.T, b.T), Sort: "Bool"}
		}
		if a.Sort != "Int" || b.Sort != "Int" {
			env.fail("ordering on %s/%s in %s", a.Sort, b.Sort, specString(x))
		}
		return SV{T: sx(x.Op, a.T, b.T), Sort: "Bool"}
	}
	if isBVSort(a.Sort) {
		uns := a.GT != nil && isUnsigned(a.GT)
		ops := map[string]string{"+": "bvadd", "-": "bvsub", "*": "bvmul", "&": "bvand", "|": "bvor", "^": "bvxor", "<<": "bvshl"}
		if op, ok := ops[x.Op]; ok {
			return SV{T: sx(op, a.T, b.T), Sort: a.Sort, GT: a.GT}
		}
		switch x.Op {
		case ">>":
			if uns {
				return SV{T: sx("bvlshr", a.T, b.T), Sort: a.Sort, GT: a.GT}
			}
			return SV{T: sx("bvashr", a.T, b.T), Sort: a.Sort, GT: a.GT}
		case "/":
			if uns {
				return SV{T: sx("bvudiv", a.T, b.T), Sort: a.Sort, GT: a.GT}
			}
			return SV{T: sx("bvsdiv", a.T, b.T), Sort: a.Sort, GT: a.GT}
		case "%":
			if uns {
				return SV{T: sx("bvurem", a.T, b.T), Sort: a.Sort, GT: a.GT}
			}
			return SV{T: sx("bvsrem", a.T, b.T), Sort: a.Sort, GT: a.GT}
		case "&^":
			return SV{T: sx("bvand", a.T, sx("bvnot", b.T)), Sort: a.Sort, GT: a.GT}
		}
	}
	if a.Sort != "Int" || b.Sort != "Int" {
		env.fail("arithmetic on %s/%s in %s", a.Sort, b.Sort, specString(x))
	}
	if fn, ok := map[string]string{"|": "bit_or", "&": "bit_and", "^": "bit_xor", "<<": "bit_shl", ">>": "bit_shr", "&^": "bit_andnot"}[x.Op]; ok {
		// same uninterpreted functions the int-mode encoding of the Go operators uses
		env.e.declareFun(fn, []string{"Int", "Int"}, "Int")
		return SV{T: sx(fn, a.T, b.T), Sort: "Int"}
	}
	switch x.Op {
	case "+", "-", "*":
		return SV{T: sx(x.Op, a.T, b.T), Sort: "Int"}
	case "/":
		return SV{T: sx("div", a.T, b.T), Sort: "Int"} // spec division: floor (use on non-negatives)
	case "%":
		return SV{T: sx("mod", a.T, b.T), Sort: "Int"}
	}
	env.fail("operator %s not supported in specs", x.Op)
	return SV{}
}

func (env *specEnv) ident(name string) SV {
	e := env.e
	// in loop invariants and at-clauses a parameter that the body reassigns denotes its current value
	// (Go semantics); inside old() and in requires/ensures it denotes the entry value
	if env.atBlock != nil && !env.noLocals && !env.onlyGhostLocals && !env.inOld {
		if _, isParam := e.paramVals[name]; isParam {
			if _, bound := env.vars[name]; bound {
				if v, ok := env.local(name); ok {
					return v
				}
			}
		}
	}
	if v, ok := env.vars[name]; ok {
		return v
	}
	if pv, ok := env.ptrVars[name]; ok {
		l := e.refLoc(pv.Ref, pv.Elem)
		return SV{T: e.load(env.cur, l), Sort: e.sortOf(pv.Elem), GT: pv.Elem}
	}
	if strings.HasPrefix(name, "call_") && !env.isCallee {
		if v, ok := e.callLog[name]; ok {
			return v
		}
	}
	// function-level ghost
	if e.fc != nil && !env.noLocals {
		for _, g := range e.fc.Ghosts {
			if g.Name == name {
				srt, _ := ghostSort(e, g.Sort)
				return SV{T: e.hget(env.live(), "$g$"+name, srt), Sort: srt}
			}
		}
	}
	// iteration state of the k-th range over a map: rangeseen / rangecount (k = 0) or rangeseen1, rangecount1, ...
	for _, pre := range []string{"rangeseen", "rangecount"} {
		if strings.HasPrefix(name, pre) {
			suffix := strings.TrimPrefix(name, pre)
			ord := 0
			if suffix != "" {
				n, err := strconv.Atoi(suffix)
				if err != nil {
					break
				}
				ord = n
			}
			h := fmt.Sprintf("$g$%s%d", pre, ord)
			if srt, declared := e.heapSort[h]; declared {
				return SV{T: e.hget(env.live(), h, srt), Sort: srt}
			}
		}
	}
	// a local variable of the function shadows a package-level ghost of the same name (ghost variables are global
	// across packages: libspec `ghost var released` must not capture a local called released)
	if !env.noLocals && !env.onlyGhostLocals {
		if v, ok := env.local(name); ok {
			return v
		}
	}
	if g, ok := e.W.C.GhostVar[name]; ok {
		srt, _ := ghostSort(e, g.Sort)
		return SV{T: e.hget(env.cur, "$gv$"+name, srt), Sort: srt}
	}
	if env.pkg != nil {
		if obj := env.pkg.Scope().Lookup(name); obj != nil {
			return env.object(obj)
		}
	}
	if obj := types.Universe.Lookup(name); obj != nil {
		if c, ok := obj.(*types.Const); ok {
			return env.constVal(c)
		}
	}
	env.fail("unknown identifier %q (function %s)", name, e.fn)
	return SV{}
}

func (env *specEnv) object(obj types.Object) SV {
	e := env.e
	switch o := obj.(type) {
	case *types.Const:
		return env.constVal(o)
	case *types.Var:
		// package-level variable
		if o.Pkg() != nil && o.Parent() == o.Pkg().Scope() {
			full := o.Pkg().Path() + "." + o.Name()
			if isErrorType(o.Type()) {
				return SV{T: e.sentinelByName(full), Sort: "Iface", GT: o.Type()}
			}
			if sp := e.W.prog.ImportedPackage(o.Pkg().Path()); sp != nil {
				if g, ok := sp.Members[o.Name()].(*ssa.Global); ok {
					l := e.globalLoc(g)
					if l.Kind == lGlobal {
						return SV{T: e.load(env.cur, l), Sort: e.sortOf(o.Type()), GT: o.Type()}
					}
					// struct/array global: value is its reference
					return SV{T: l.Base, Sort: "Int", GT: types.NewPointer(o.Type())}
				}
			}
			srt := e.sortOf(o.Type())
			return SV{T: e.hget(env.cur, "G$"+full, srt), Sort: srt, GT: o.Type()}
		}
	}
	env.fail("cannot use %s in a spec", obj)
	return SV{}
}

func isErrorType(t types.Type) bool {
	n, ok := t.(*types.Named)
	return ok && n.Obj().Pkg() == nil && n.Obj().Name() == "error"
}

func (env *specEnv) constVal(c *types.Const) SV {
	e := env.e
	v := c.Val()
	switch v.Kind() {
	case constant.Bool:
		if constant.BoolVal(v) {
			return SV{T: tTrue, Sort: "Bool"}
		}
		return SV{T: tFalse, Sort: "Bool"}
	case constant.Int:
		if e.bv && isInteger(c.Type()) && c.Type().Underlying().(*types.Basic).Info()&types.IsUntyped == 0 {
			w := intBits(c.Type().Underlying().(*types.Basic))
			n := parseBig(v.ExactString())
			if n.Sign() < 0 {
				return SV{T: fmt.Sprintf("(bvneg (_ bv%s %d))", new(big.Int).Neg(n).String(), w), Sort: fmt.Sprintf("(_ BitVec %d)", w), GT: c.Type()}
			}
			return SV{T: fmt.Sprintf("(_ bv%s %d)", n.String(), w), Sort: fmt.Sprintf("(_ BitVec %d)", w), GT: c.Type()}
		}
		return SV{T: tIntS(v.ExactString()), Sort: "Int", GT: c.Type()}
	case constant.String:
		return SV{T: e.strConst(constant.StringVal(v)), Sort: "Str", GT: c.Type()}
	}
	env.fail("constant %s of unsupported kind", c.Name())
	return SV{}
}

// local resolves a source-level local variable at env.atBlock.
func (env *specEnv) local(name string) (SV, bool) {
	e := env.e
	// inside a helper that is executed in place, the helper's own variables come first
	if n := len(e.inlineDebug); n > 0 && env.atInstr && e.curBlock != nil {
		if cands := e.inlineDebug[n-1][name]; len(cands) > 0 {
			if sv, ok := env.localAmong(cands, e.curBlock, name); ok {
				return sv, true
			}
		}
	}
	return env.localAmong(e.debugVars[name], env.atBlock, name)
}

func (env *specEnv) localAmong(cands []ssa.Value, atBlock *ssa.BasicBlock, name string) (SV, bool) {
	e := env.e
	if len(cands) == 0 {
		return SV{}, false
	}
	var best ssa.Value
	bestDepth, bestIdx := -1, -1
	// a variable that lives in a cell (captured by a closure or address-taken) always denotes the cell's content
	for _, c := range cands {
		if a, ok := c.(*ssa.Alloc); ok && a.Comment == name {
			if _, defined := e.vals[a]; defined && (atBlock == nil || a.Block().Dominates(atBlock)) {
				elem := a.Type().(*types.Pointer).Elem()
				l := e.refLoc(e.val(a).T, elem)
				return SV{T: e.load(env.cur, l), Sort: e.sortOf(elem), GT: elem}, true
			}
		}
	}
	for _, c := range cands {
		var blk *ssa.BasicBlock
		idx := 0
		switch c := c.(type) {
		case ssa.Instruction:
			blk = c.Block()
			for i, in := range blk.Instrs {
				if in == c {
					idx = i
				}
			}
		default:
			// parameter or constant: always available
			if best == nil {
				best = c
			}
			continue
		}
		if atBlock != nil {
			if phi, ok := c.(*ssa.Phi); ok && phi.Block() == atBlock {
				best = c
				bestDepth = 1 << 30
				continue
			}
			if !blk.Dominates(atBlock) {
				continue
			}
			if blk == atBlock && !env.atInstr {
				continue
			}
		}
		if _, defined := e.vals[c]; !defined {
			if _, isPhi := c.(*ssa.Phi); !isPhi || env.phiSubst == nil {
				continue
			}
		}
		d := domDepth(blk)
		if d > bestDepth || d == bestDepth && idx > bestIdx {
			best, bestDepth, bestIdx = c, d, idx
		}
	}
	if best == nil {
		return SV{}, false
	}
	if phi, ok := best.(*ssa.Phi); ok && env.phiSubst != nil {
		if v, ok := env.phiSubst[phi]; ok {
			return SV{T: v.T, Sort: e.sortOf(phi.Type()), GT: phi.Type()}, true
		}
	}
	if a, ok := best.(*ssa.Alloc); ok && a.Comment == name {
		elem := a.Type().(*types.Pointer).Elem()
		l := e.refLoc(e.val(a).T, elem)
		return SV{T: e.load(env.cur, l), Sort: e.sortOf(elem), GT: elem}, true
	}
	return SV{T: e.val(best).T, Sort: e.sortOf(best.Type()), GT: best.Type()}, true
}

func domDepth(b *ssa.BasicBlock) int {
	d := 0
	for b.Idom() != nil {
		b = b.Idom()
		d++
	}
	return d
}

func (env *specEnv) sel(x *SSel) SV {
	e := env.e
	// package-qualified name?
	if id, ok := x.X.(*SIdent); ok {
		if _, bound := env.vars[id.Name]; !bound {
			if _, bound2 := env.ptrVars[id.Name]; !bound2 {
				if p := env.importedPkg(id.Name); p != nil {
					obj := p.Scope().Lookup(x.Sel)
					if obj == nil {
						env.fail("%s.%s not found", id.Name, x.Sel)
					}
					return env.object(obj)
				}
				// a sentinel error of a standard package that this program does not happen to load (libspecs mention
				// io.EOF in packages that never import io): sentinels are distinct constants named by package path
				if _, isLocal := e.debugVars[id.Name]; !isLocal && (x.Sel == "EOF" || strings.HasPrefix(x.Sel, "Err")) {
					if _, known := map[string]bool{"io": true, "os": true, "context": true, "errors": true, "fs": true}[id.Name]; known {
						return SV{T: e.sentinelByName(id.Name + "." + x.Sel), Sort: "Iface", GT: types.Universe.Lookup("error").Type()}
					}
				}
			}
		}
	}
	b := env.eval(x.X)
	return e.selectField(env, b, x.Sel)
}

func (env *specEnv) importedPkg(name string) *types.Package {
	if env.pkg == nil {
		return nil
	}
	if !env.noLocals {
		if _, isLocal := env.e.debugVars[name]; isLocal {
			return nil
		}
	}
	for _, p := range env.pkg.Imports() {
		if p.Name() == name {
			return p
		}
	}
	// any package known to the program by that name (libspecs refer to io.EOF etc.)
	if p, ok := env.e.W.pkgByName[name]; ok {
		return p
	}
	return nil
}

func (e *Enc) selectField(env *specEnv, b SV, sel string) SV {
	if b.Sort == "Slice" {
		switch sel {
		case "base":
			return SV{T: sx("s-base", b.T), Sort: "Int"}
		case "off":
			return SV{T: sx("s-off", b.T), Sort: "Int"}
		}
	}
	if b.Sort == "Iface" {
		if sel == "dyntype" {
			return SV{T: sx("i-typ", b.T), Sort: "Int"}
		}
		if sel == "payload" {
			return SV{T: sx("i-val", b.T), Sort: "Int"}
		}
		if g, ok := e.W.C.IfaceGh[sel]; ok {
			srt, _ := ghostSort(e, g.Sort)
			h := e.hget(env.cur, "GI$"+sel, fmt.Sprintf("(Array Iface %s)", srt))
			return SV{T: tSel(h, b.T), Sort: srt}
		}
		env.fail("no interface ghost field %q", sel)
	}
	if b.GT == nil {
		env.fail("selector .%s on untyped spec value", sel)
	}
	t := b.GT
	ref := b.T
	isPtr := false
	if pt, ok := t.Underlying().(*types.Pointer); ok {
		t = pt.Elem()
		isPtr = true
	}
	st, ok := t.Underlying().(*types.Struct)
	if !ok {
		env.fail("selector .%s on non-struct %s", sel, t)
	}
	// ghost field?
	if tc := e.W.typeContract(t); tc != nil {
		for _, g := range tc.Ghosts {
			if g.Name == sel {
				if !isPtr {
					env.fail("ghost field %s needs a pointer receiver", sel)
				}
				srt, _ := ghostSort(e, g.Sort)
				h := e.hget(env.cur, "GF$"+typeKey(stripTypeArgs(t))+"."+sel, fmt.Sprintf("(Array Int %s)", srt))
				return SV{T: tSel(h, ref), Sort: srt}
			}
		}
	}
	for i := 0; i < st.NumFields(); i++ {
		f := st.Field(i)
		if f.Name() == sel {
			if !isPtr {
				e.sortOf(t)
				return SV{T: sx(e.structSel(t, i), b.T), Sort: e.sortOf(f.Type()), GT: f.Type()}
			}
			l := e.fieldLoc(ref, t, i)
			if l.Heap == "" {
				// nested struct/array: value is its sub-reference
				return SV{T: l.Base, Sort: "Int", GT: types.NewPointer(f.Type())}
			}
			t := e.load(env.cur, l)
			e.specLoadFacts(t, f.Type())
			return SV{T: t, Sort: e.sortOf(f.Type()), GT: f.Type()}
		}
	}
	// promoted through embedded fields (one level)
	for i := 0; i < st.NumFields(); i++ {
		f := st.Field(i)
		if !f.Embedded() {
			continue
		}
		var inner SV
		if isPtr {
			l := e.fieldLoc(ref, t, i)
			if l.Heap == "" {
				inner = SV{T: l.Base, Sort: "Int", GT: types.NewPointer(f.Type())}
			} else {
				inner = SV{T: e.load(env.cur, l), Sort: e.sortOf(f.Type()), GT: f.Type()}
			}
		} else {
			inner = SV{T: sx(e.structSel(t, i), b.T), Sort: e.sortOf(f.Type()), GT: f.Type()}
		}
		ft := f.Type()
		if pt, ok := ft.Underlying().(*types.Pointer); ok {
			ft = pt.Elem()
		}
		if ist, ok := ft.Underlying().(*types.Struct); ok {
			for j := 0; j < ist.NumFields(); j++ {
				if ist.Field(j).Name() == sel {
					return e.selectField(env, inner, sel)
				}
			}
		}
	}
	env.fail("type %s has no field %q", t, sel)
	return SV{}
}

func (env *specEnv) index(b, i SV, x SExpr) SV {
	e := env.e
	switch {
	case b.Sort == "Slice":
		elem := b.GT.Underlying().(*types.Slice).Elem()
		srt := fmt.Sprintf("(Array Int (Array Int %s))", e.sortOf(elem))
		H := e.hget(env.cur, elemHeap(elem), srt)
		return SV{T: tSel(tSel(H, sx("s-base", b.T)), tAdd(sx("s-off", b.T), i.T)), Sort: e.sortOf(elem), GT: elem}
	case b.Sort == "Str":
		return SV{T: tSel(sx("str-data", b.T), i.T), Sort: "Int"}
	case strings.HasPrefix(b.Sort, "(Array "):
		_, vs := splitArraySort(b.Sort)
		var gt types.Type
		if b.GT != nil {
			if at, ok := b.GT.Underlying().(*types.Array); ok {
				gt = at.Elem()
			}
		}
		return SV{T: tSel(b.T, i.T), Sort: vs, GT: gt}
	case b.GT != nil:
		if pt, ok := b.GT.Underlying().(*types.Pointer); ok {
			if at, ok := pt.Elem().Underlying().(*types.Array); ok {
				srt := fmt.Sprintf("(Array Int (Array Int %s))", e.sortOf(at.Elem()))
				H := e.hget(env.cur, elemHeap(at.Elem()), srt)
				return SV{T: tSel(tSel(H, b.T), i.T), Sort: e.sortOf(at.Elem()), GT: at.Elem()}
			}
		}
		if mt, ok := b.GT.Underlying().(*types.Map); ok {
			return SV{T: e.mapGet(env.cur, mt, b.T, i.T), Sort: e.sortOf(mt.Elem()), GT: mt.Elem()}
		}
	}
	env.fail("cannot index %s (%s)", specString(x), b.Sort)
	return SV{}
}

func splitArraySort(s string) (string, string) {
	// "(Array K V)"
	inner := s[len("(Array ") : len(s)-1]
	depth := 0
	for i := 0; i < len(inner); i++ {
		switch inner[i] {
		case '(':
			depth++
		case ')':
			depth--
		case ' ':
			if depth == 0 {
				return inner[:i], inner[i+1:]
			}
		}
	}
	return "Int", "Int"
}

func (env *specEnv) call(x *SCall) SV {
	e := env.e
	id, ok := x.Fn.(*SIdent)
	if !ok {
		env.fail("cannot call %s in a spec", specString(x.Fn))
	}
	arg := func(i int) SV {
		if i >= len(x.Args) {
			env.fail("%s: too few arguments", id.Name)
		}
		return env.eval(x.Args[i])
	}
	switch id.Name {
	case "old":
		oe := env.withState(env.old, env.old)
		oe.inOld = true
		return oe.eval(x.Args[0])
	case "len":
		v := arg(0)
		switch {
		case v.Sort == "Slice":
			return SV{T: sx("s-len", v.T), Sort: "Int"}
		case v.Sort == "Str":
			return SV{T: sx("str-len", v.T), Sort: "Int"}
		case v.GT != nil:
			if mt, ok := v.GT.Underlying().(*types.Map); ok {
				return SV{T: e.mapLen(env.cur, mt, v.T), Sort: "Int"}
			}
			if at, ok := v.GT.Underlying().(*types.Array); ok {
				return SV{T: tInt(at.Len()), Sort: "Int"}
			}
		}
		env.fail("len of %s", v.Sort)
	case "selhas", "selhassend":
		// selhas(c): c is the channel of some receive case of the select this at-clause is anchored at
		// (selhassend: of some send case)
		if e.atSelect == nil {
			env.fail("%s is only available in at-clauses anchored at a select", id.Name)
		}
		v := arg(0)
		var alts []Term
		for _, st := range e.atSelect.States {
			if (st.Dir == types.RecvOnly) == (id.Name == "selhas") {
				alts = append(alts, tEq(v.T, e.val(st.Chan).T))
			}
		}
		if len(alts) == 0 {
			return SV{T: tFalse, Sort: "Bool"}
		}
		return SV{T: tOr(alts...), Sort: "Bool"}
	case "bound":
		// bound(f, i, "type"): the i-th value captured by the closure / bound-method value f, of the given Go type
		// (for x.M, binding 0 is the receiver x; for a func literal, a captured variable is a pointer to its cell)
		if len(x.Args) != 3 {
			env.fail("bound(f, i, \"type\")")
		}
		v := arg(0)
		il, ok1 := x.Args[1].(*SLit)
		tl, ok2 := x.Args[2].(*SLit)
		if !ok1 || !ok2 || il.Kind != "int" || tl.Kind != "string" {
			env.fail("bound(f, i, \"type\")")
		}
		idx, _ := strconv.Atoi(il.Val)
		tn, _ := strconv.Unquote(tl.Val)
		if !strings.Contains(tn, "/") && !strings.Contains(tn, ".") && env.pkg != nil && types.Universe.Lookup(strings.TrimPrefix(tn, "*")) == nil {
			if strings.HasPrefix(tn, "*") {
				tn = "*" + env.pkg.Path() + "." + tn[1:]
			} else {
				tn = env.pkg.Path() + "." + tn
			}
		}
		gt := e.W.lookupType(tn)
		if gt == nil {
			env.fail("bound: unknown type %s", tn)
		}
		srt := e.sortOf(gt)
		fn := closureBindFn(idx, srt)
		e.declareFun(fn, []string{"Int"}, srt)
		return SV{T: sx(fn, v.T), Sort: srt, GT: gt}
	case "isfunc":
		// isfunc(f, "pkg.Name" | "(pkg.T).Method$bound" | "Name"): the function value f runs exactly that function
		v := arg(0)
		if len(x.Args) != 2 {
			env.fail("isfunc(f, \"function name\")")
		}
		lit, ok := x.Args[1].(*SLit)
		if !ok || lit.Kind != "string" {
			env.fail("isfunc(f, \"function name\")")
		}
		name, _ := strconv.Unquote(lit.Val)
		if !strings.Contains(name, "/") && env.pkg != nil {
			name = qualifyKey(name, env.pkg.Path())
		}
		return SV{T: tEq(sx("fnid", v.T), tInt(int64(e.W.typeIDByName("fn:"+normalizeFnKey(name))))), Sort: "Bool"}
	case "cap":
		v := arg(0)
		if v.Sort == "Slice" {
			return SV{T: sx("s-cap", v.T), Sort: "Int"}
		}
		if v.GT != nil {
			if _, ok := v.GT.Underlying().(*types.Chan); ok {
				return SV{T: sx("chancap", v.T), Sort: "Int"}
			}
		}
		env.fail("cap of %s", v.Sort)
	case "fresh":
		v := arg(0)
		ref := v.T
		if v.Sort == "Slice" {
			ref = sx("s-base", v.T)
		} else if v.Sort == "Iface" {
			ref = sx("i-val", v.T)
		}
		return SV{T: tAnd(tLe(e.alloc(env.old), ref), tLt(ref, e.alloc(env.cur))), Sort: "Bool"}
	case "allocated":
		v := arg(0)
		ref := v.T
		if v.Sort == "Slice" {
			ref = sx("s-base", v.T)
		}
		return SV{T: tLt(ref, e.alloc(env.cur)), Sort: "Bool"}
	case "inv":
		v := arg(0)
		return SV{T: e.typeInv(env, v, nil, false), Sort: "Bool"}
	case "invexcept", "invonly":
		v := arg(0)
		labels := map[string]bool{}
		for _, a := range x.Args[1:] {
			lit, ok := a.(*SLit)
			if !ok || lit.Kind != "string" {
				env.fail("%s needs label strings", id.Name)
			}
			l, _ := strconv.Unquote(lit.Val)
			labels[l] = true
		}
		return SV{T: e.typeInv(env, v, labels, id.Name == "invonly"), Sort: "Bool"}
	case "haskey":
		m, k := arg(0), arg(1)
		mt, ok := m.GT.Underlying().(*types.Map)
		if !ok {
			env.fail("haskey on non-map")
		}
		return SV{T: e.mapHas(env.cur, mt, m.T, k.T), Sort: "Bool"}
	case "typeis":
		v := arg(0)
		lit, ok := x.Args[1].(*SLit)
		if !ok || lit.Kind != "string" {
			env.fail("typeis needs a type name string")
		}
		name, _ := strconv.Unquote(lit.Val)
		base := name
		if i := strings.Index(base, "["); i > 0 {
			if c := base[i-1]; c == '_' || c >= '0' && c <= '9' || c >= 'a' && c <= 'z' || c >= 'A' && c <= 'Z' {
				base = base[:i] // generic instance "pkg.T[K, V]": resolve the origin; the id is keyed by the full string
			}
		}
		if e.W.parseTypeName(base) == nil {
			for _, pre := range []string{"func(", "*func(", "[]", "map[", "chan ", "<-chan ", "struct{", "interface{", "*[]", "*map["} {
				if strings.HasPrefix(base, pre) {
					// an unnamed type literal is not resolved by name: answering false here would make clauses vacuous
					env.fail("typeis: unnamed type %q is not supported (compare x.dyntype with box(0, \"…\").dyntype)", name)
				}
			}
			// a type that is not part of the loaded program: no value can have it as dynamic type
			return SV{T: tFalse, Sort: "Bool"}
		}
		id := e.W.typeIDByName(name)
		return SV{T: tEq(sx("i-typ", v.T), tInt(int64(id))), Sort: "Bool"}
	case "nolocks":
		// nolocks(): this goroutine holds exactly the locks it held at function entry
		e.heapDecl("$held", heldSort)
		return SV{T: tEq(e.heldArr(env.cur), smtName("$held@0")), Sort: "Bool"}
	case "zero":
		// zero(e): the zero value of e's static type
		v := arg(0)
		if v.GT != nil {
			return SV{T: e.zeroOf(v.GT), Sort: v.Sort, GT: v.GT}
		}
		switch v.Sort {
		case "Int":
			return SV{T: "0", Sort: "Int"}
		case "Bool":
			return SV{T: tFalse, Sort: "Bool"}
		case "TP":
			e.declare("zero-TP", "TP")
			return SV{T: "zero-TP", Sort: "TP"}
		case "Iface":
			return SV{T: "(mk-iface 0 0)", Sort: "Iface"}
		case "Slice":
			return SV{T: "(mk-slice 0 0 0 0)", Sort: "Slice"}
		}
		env.fail("zero(): unknown sort %s", v.Sort)
	case "fieldmap":
		// fieldmap(x.f): the whole map "object reference -> value of field f" (for spec functions over linked structures)
		hn, hs := env.fieldHeapOf(x.Args[0])
		return SV{T: e.hget(env.cur, hn, hs), Sort: hs}
	case "unbox":
		// unbox(v, "T"): the T-typed value held by interface v (meaningful when typeis(v, "T"))
		v := arg(0)
		lit, ok := x.Args[1].(*SLit)
		if !ok || lit.Kind != "string" {
			env.fail("unbox needs a type name string")
		}
		name, _ := strconv.Unquote(lit.Val)
		t := e.W.parseTypeName(name)
		if t == nil {
			env.fail("unbox: unknown type %s", name)
		}
		return SV{T: e.unbox(v.T, t), Sort: e.sortOf(t), GT: t}
	case "box":
		// box(p, "*pkg.T"): the interface value holding pointer p with dynamic type T
		v := arg(0)
		lit, ok := x.Args[1].(*SLit)
		if !ok || lit.Kind != "string" {
			env.fail("box needs a type name string")
		}
		name, _ := strconv.Unquote(lit.Val)
		return SV{T: sx("mk-iface", tInt(int64(e.W.typeIDByName(name))), v.T), Sort: "Iface"}
	case "implements":
		v := arg(0)
		lit, ok := x.Args[1].(*SLit)
		if !ok || lit.Kind != "string" {
			env.fail("implements needs an interface name string")
		}
		name, _ := strconv.Unquote(lit.Val)
		it := e.W.lookupType(name)
		if it == nil {
			env.fail("unknown interface %s", name)
		}
		return SV{T: e.implementsPred(v.T, it), Sort: "Bool"}
	case "at":
		// at(L, e): e evaluated in the state saved by `at <anchor> label L`
		lid, ok := x.Args[0].(*SIdent)
		if !ok || len(x.Args) != 2 {
			env.fail("at(label, expr)")
		}
		for _, cl := range env.calleeLabels {
			if cl == lid.Name {
				// a label of the callee whose contract is being applied: its state is not visible to this caller,
				// even when the caller happens to use the same label name
				env.fail("label %s is not declared", lid.Name)
			}
		}
		st, ok := e.labels[lid.Name]
		if !ok {
			// the labelled point is not on any path to here: its state is arbitrary (clauses normally guard
			// such uses with a hypothesis that is false on this path)
			declared := false
			if e.fc != nil {
				for _, a := range e.fc.Ats {
					if a.Kind == "label" && a.Target == lid.Name {
						declared = true
					}
				}
			}
			if !declared {
				env.fail("label %s is not declared", lid.Name)
			}
			st = &State{h: map[string]Term{}}
			for _, n := range e.heapOrder {
				st.h[n] = e.fresh(n+"_nolabel", e.heapSort[n])
			}
		}
		return env.withState(st, env.old).eval(x.Args[1])
	case "held", "heldw", "heldr":
		// held(x.lock): the mutex field is held by this goroutine (any mode / write / read)
		if gid, isID := x.Args[0].(*SIdent); isID && env.pkg != nil {
			// a package-level mutex variable
			if sp := e.W.prog.ImportedPackage(env.pkg.Path()); sp != nil {
				if g, ok := sp.Members[gid.Name].(*ssa.Global); ok {
					h := tSel(e.heldArr(env.cur), e.val(g).T)
					switch id.Name {
					case "heldw":
						return SV{T: tEq(h, "2"), Sort: "Bool"}
					case "heldr":
						return SV{T: tEq(h, "1"), Sort: "Bool"}
					}
					return SV{T: tNot(tEq(h, "0")), Sort: "Bool"}
				}
			}
		}
		sel, ok := x.Args[0].(*SSel)
		if !ok {
			env.fail("%s(x.lockfield)", id.Name)
		}
		b := env.eval(sel.X)
		pt, ok := b.GT.Underlying().(*types.Pointer)
		if !ok {
			env.fail("%s: base is not a pointer", id.Name)
		}
		su, isStruct := pt.Elem().Underlying().(*types.Struct)
		if !isStruct {
			env.fail("%s: base is not a struct pointer", id.Name)
		}
		for i := 0; i < su.NumFields(); i++ {
			if su.Field(i).Name() == sel.Sel {
				lref := sx("subref", b.T, tInt(int64(i)))
				if _, isPtr := su.Field(i).Type().Underlying().(*types.Pointer); isPtr {
					lref = e.load(env.cur, e.fieldLoc(b.T, pt.Elem(), i))
				}
				h := tSel(e.heldArr(env.cur), lref)
				switch id.Name {
				case "heldw":
					return SV{T: tEq(h, "2"), Sort: "Bool"}
				case "heldr":
					return SV{T: tEq(h, "1"), Sort: "Bool"}
				}
				return SV{T: tNot(tEq(h, "0")), Sort: "Bool"}
			}
		}
		env.fail("%s: no field %s", id.Name, sel.Sel)
	case "deref":
		// deref(v, "T"): the T-typed cell designated by pointer v (or by the pointer boxed in interface v)
		l := env.derefLoc(x)
		return SV{T: e.load(env.cur, l), Sort: e.sortOf(l.Typ), GT: l.Typ}
	case "update":
		a, i, v := arg(0), arg(1), arg(2)
		if !strings.HasPrefix(a.Sort, "(Array ") {
			env.fail("update on %s", a.Sort)
		}
		if v.Nil {
			_, vs := splitArraySort(a.Sort)
			v = env.nilOf(SV{Sort: vs})
		}
		return SV{T: tStore(a.T, i.T, v.T), Sort: a.Sort, GT: a.GT}
	case "min", "max":
		a, b := arg(0), arg(1)
		c := sx("<=", a.T, b.T)
		if id.Name == "max" {
			c = sx(">=", a.T, b.T)
		}
		return SV{T: tIte(c, a.T, b.T), Sort: "Int"}
	case "abs":
		a := arg(0)
		return SV{T: sx("abs", a.T), Sort: "Int"}
	case "int":
		a := arg(0)
		if isBVSort(a.Sort) {
			if a.GT != nil && !isUnsigned(a.GT) {
				w := bvWidth(a.Sort)
				return SV{T: tIte(sx("bvslt", a.T, fmt.Sprintf("(_ bv0 %d)", w)), sx("-", sx("bv2nat", a.T), pow2(w)), sx("bv2nat", a.T)), Sort: "Int"}
			}
			return SV{T: sx("bv2nat", a.T), Sort: "Int"}
		}
		return a
	case "region":
		// region(p) -- the backing array contents of slice p as a spec array
		v := arg(0)
		elem := v.GT.Underlying().(*types.Slice).Elem()
		srt := fmt.Sprintf("(Array Int (Array Int %s))", e.sortOf(elem))
		return SV{T: tSel(e.hget(env.cur, elemHeap(elem), srt), sx("s-base", v.T)), Sort: fmt.Sprintf("(Array Int %s)", e.sortOf(elem))}
	}
	if pf, ok := e.W.C.Pures[id.Name]; ok {
		var args []Term
		for i, p := range pf.Params {
			a := arg(i)
			ps, _ := ghostSort(e, p.Sort)
			if a.Nil {
				a = env.nilOf(SV{Sort: ps})
			}
			if isBVSort(ps) && a.Sort == "Int" {
				a = env.intToBV(a, SV{Sort: ps})
			}
			if a.Sort != ps {
				env.fail("%s: argument %d has sort %s, want %s", pf.Name, i, a.Sort, ps)
			}
			args = append(args, a.T)
		}
		e.usePure(pf)
		rs, rgt := ghostSort(e, pf.Sort)
		return SV{T: sx(smtName("pf$"+pf.Name), args...), Sort: rs, GT: rgt}
	}
	env.fail("unknown spec function %q", id.Name)
	return SV{}
}

// usePure declares a pure spec function (and the ones it depends on) in this query context. Non-recursive
// functions become define-fun (also visible to the quantifier-free counterexample queries); recursive ones are
// declared and axiomatised with their unfolding triggered on the application.
func (e *Enc) usePure(pf *PureFunc) {
	key := "pure:" + pf.Name
	if _, ok := e.declOf[key]; ok {
		return
	}
	e.declOf[key] = "pure"
	var ps []string
	var binders []string
	env := &specEnv{e: e, cur: e.init, old: e.init, vars: map[string]SV{}, ptrVars: map[string]ptrVar{}, noLocals: true}
	if e.fn.Pkg != nil {
		env.pkg = e.fn.Pkg.Pkg
	}
	for _, p := range pf.Params {
		srt, gt := ghostSort(e, p.Sort)
		ps = append(ps, srt)
		binders = append(binders, fmt.Sprintf("(%s %s)", p.Name+"!p", srt))
		env.vars[p.Name] = SV{T: p.Name + "!p", Sort: srt, GT: gt}
	}
	rs, _ := ghostSort(e, pf.Sort)
	name := smtName("pf$" + pf.Name)
	recursive := pf.Body != nil && specMentionsCall(pf.Body, pf.Name)
	if pf.Body == nil || recursive {
		if _, dup := e.declOf[name]; !dup {
			e.declOf[name] = "fun"
			e.decls = append(e.decls, fmt.Sprintf("(declare-fun %s (%s) %s)", name, strings.Join(ps, " "), rs))
		}
	}
	if pf.Body == nil {
		return
	}
	body := env.eval(pf.Body)
	if !recursive {
		if _, dup := e.declOf[name]; !dup {
			e.declOf[name] = "fun"
			e.decls = append(e.decls, fmt.Sprintf("(define-fun %s (%s) %s %s)", name, strings.Join(binders, " "), rs, body.T))
		}
		return
	}
	var args []string
	for _, p := range pf.Params {
		args = append(args, p.Name+"!p")
	}
	app := sx(name, args...)
	if len(binders) == 0 {
		e.assumeGFront(tEq(app, body.T))
	} else {
		e.assumeGFront(fmt.Sprintf("(forall (%s) (! (= %s %s) :pattern (%s)))", strings.Join(binders, " "), app, body.T, app))
	}
}

func specMentionsCall(x SExpr, name string) bool {
	switch x := x.(type) {
	case *SCall:
		if id, ok := x.Fn.(*SIdent); ok && id.Name == name {
			return true
		}
		for _, a := range x.Args {
			if specMentionsCall(a, name) {
				return true
			}
		}
		return specMentionsCall(x.Fn, name)
	case *SBin:
		return specMentionsCall(x.L, name) || specMentionsCall(x.R, name)
	case *SUn:
		return specMentionsCall(x.X, name)
	case *SCond:
		return specMentionsCall(x.C, name) || specMentionsCall(x.A, name) || specMentionsCall(x.B, name)
	case *SQuant:
		return specMentionsCall(x.Body, name)
	case *SLambda:
		return specMentionsCall(x.Body, name)
	case *SSel:
		return specMentionsCall(x.X, name)
	case *SIndex:
		return specMentionsCall(x.X, name) || specMentionsCall(x.I, name)
	case *SSliceE:
		return specMentionsCall(x.X, name) || (x.Lo != nil && specMentionsCall(x.Lo, name)) || (x.Hi != nil && specMentionsCall(x.Hi, name))
	}
	return false
}

// assumeGFront adds an axiom visible to every obligation of this function (including earlier ones).
func (e *Enc) assumeGFront(t Term) {
	e.axioms = append(e.axioms, t)
}

// typeInv expands the declared invariants of v's type with self := v.
func (e *Enc) typeInv(env *specEnv, v SV, labels map[string]bool, only bool) Term {
	if v.GT == nil {
		env.fail("inv() of untyped value")
	}
	t := v.GT
	if pt, ok := t.Underlying().(*types.Pointer); ok {
		t = pt.Elem()
	}
	tc := e.W.typeContract(t)
	if tc == nil {
		env.fail("type %s has no declared invariant", t)
	}
	ne := env.bind("self", v)
	ne.noLocals = true
	if n, ok := t.(*types.Named); ok && n.Obj().Pkg() != nil {
		ne.pkg = n.Obj().Pkg()
	}
	var cs []Term
	for _, cl := range tc.Invs {
		if labels != nil && labels[cl.Label] != only {
			continue
		}
		cs = append(cs, ne.evalBool(cl.Expr))
	}
	return tAnd(cs...)
}

// parseTypeName understands "[]byte", "[]T", "*T", basic names and "pkg/path.Name".
func (w *World) parseTypeName(name string) types.Type {
	name = strings.TrimSpace(name)
	switch {
	case strings.HasPrefix(name, "[]"):
		if el := w.parseTypeName(name[2:]); el != nil {
			return types.NewSlice(el)
		}
		return nil
	case strings.HasPrefix(name, "*"):
		if el := w.parseTypeName(name[1:]); el != nil {
			return types.NewPointer(el)
		}
		return nil
	}
	return w.lookupType(name)
}

func (env *specEnv) derefLoc(x *SCall) *Loc {
	if len(x.Args) != 2 {
		env.fail("deref(v, \"T\") needs two arguments")
	}
	v := env.eval(x.Args[0])
	lit, ok := x.Args[1].(*SLit)
	if !ok || lit.Kind != "string" {
		env.fail("deref needs a type name string")
	}
	name, _ := strconv.Unquote(lit.Val)
	t := env.e.W.parseTypeName(name)
	if t == nil {
		env.fail("deref: unknown type %s", name)
	}
	ref := v.T
	if v.Sort == "Iface" {
		ref = sx("i-val", v.T)
	}
	return env.e.refLoc(ref, t)
}

// tryEvalBool evaluates a clause; false if it refers to identifiers unknown in this environment.
func (env *specEnv) tryEvalBool(x SExpr, anyError bool) (t Term, ok bool) {
	defer func() {
		if r := recover(); r != nil {
			if ee, isEnc := r.(encErr); isEnc && (anyError || env.isCalleeGhostError(string(ee))) {
				t, ok = "", false
				return
			}
			panic(r)
		}
	}()
	return env.evalBool(x), true
}

// specLoadFacts: values read from the heap in a spec are well-typed Go values (length/range facts only; no
// allocation bound, the state may be any state of the activation).
func (e *Enc) specLoadFacts(t Term, typ types.Type) {
	if isTypeParam(typ) {
		return
	}
	if strings.Contains(t, "!q") || strings.Contains(t, "!l") || strings.Contains(t, "!p") {
		return // mentions a bound variable
	}
	switch u := typ.Underlying().(type) {
	case *types.Slice:
		e.assume(tAnd(tLe("0", sx("s-off", t)), tLe("0", sx("s-len", t)), tLe(sx("s-len", t), sx("s-cap", t)), tLe(sx("s-cap", t), maxLenBound),
			tLe("0", sx("s-base", t)), tImp(tEq(sx("s-base", t), "0"), tAnd(tEq(sx("s-cap", t), "0"), tEq(sx("s-off", t), "0")))))
	case *types.Basic:
		if u.Info()&types.IsInteger != 0 && !e.bv {
			e.assume(inRange(typ, t))
		}
	}
}

// fieldHeapOf resolves x.f (x a struct pointer) to the heap map of field f.
func (env *specEnv) fieldHeapOf(x SExpr) (name, sort string) {
	sel, ok := x.(*SSel)
	if !ok {
		env.fail("expected x.field")
	}
	b := env.eval(sel.X)
	if b.GT == nil {
		env.fail("fieldmap: untyped base")
	}
	t := b.GT
	if pt, ok := t.Underlying().(*types.Pointer); ok {
		t = pt.Elem()
	}
	st, ok := t.Underlying().(*types.Struct)
	if !ok {
		env.fail("fieldmap: not a struct")
	}
	if tc := env.e.W.typeContract(t); tc != nil {
		for _, g := range tc.Ghosts {
			if g.Name == sel.Sel {
				srt, _ := ghostSort(env.e, g.Sort)
				return "GF$" + typeKey(stripTypeArgs(t)) + "." + sel.Sel, fmt.Sprintf("(Array Int %s)", srt)
			}
		}
	}
	for i := 0; i < st.NumFields(); i++ {
		if st.Field(i).Name() == sel.Sel {
			return fieldHeap(t, i), fmt.Sprintf("(Array Int %s)", env.e.sortOf(st.Field(i).Type()))
		}
	}
	env.fail("fieldmap: no field %s", sel.Sel)
	return "", ""
}

// isCalleeGhostError: the evaluation failed only because the clause names a function-level ghost of the callee
// (invisible to callers). Any other unknown identifier (a typo in an assumed contract!) stays a hard error.
func (env *specEnv) isCalleeGhostError(msg string) bool {
	for _, g := range env.calleeGhosts {
		if strings.Contains(msg, fmt.Sprintf("unknown identifier %q", g.Name)) {
			return true
		}
	}
	for _, l := range env.calleeLabels {
		if strings.Contains(msg, "label "+l+" is not declared") {
			return true
		}
	}
	if env.isCallee && strings.Contains(msg, "unknown identifier \"call_") {
		return true // results of the callee's own calls: callee-local as well
	}
	return false
}
