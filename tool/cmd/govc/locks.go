package main

import (
	"fmt"
	"go/token"
	"go/types"
	"strings"

	"golang.org/x/tools/go/ssa"
)

// Lock-structured concurrency (DESIGN.md §3): the monitor rule.
//   - `$held` maps a lock reference to 0 (free), 1 (read-held), 2 (write-held) for the current thread.
//   - acquiring a declared lock havocs the fields it protects (other threads may have run) and assumes the
//     lock invariant; releasing a write lock asserts it.
//   - loads/stores of protected fields need the lock (guard:read / guard:write), unless the object is fresh.

const heldSort = "(Array Int Int)"

var lockOps = map[string]string{
	"(*sync.Mutex).Lock":      "lock",
	"(*sync.Mutex).Unlock":    "unlock",
	"(*sync.RWMutex).Lock":    "lock",
	"(*sync.RWMutex).Unlock":  "unlock",
	"(*sync.RWMutex).RLock":   "rlock",
	"(*sync.RWMutex).RUnlock": "runlock",
}

func (e *Enc) heldArr(s *State) Term { return e.hget(s, "$held", heldSort) }

// lockTarget resolves the receiver of a lock operation to (object ref, struct type, lock declaration).
// The receiver is either the address of a mutex field (&x.mu) or the value of a pointer-typed lock field (x.mu).
func (e *Enc) lockTarget(recv ssa.Value) (obj Term, st types.Type, decl *LockDecl, ok bool) {
	fa, isFA := recv.(*ssa.FieldAddr)
	if !isFA {
		if ld, isLoad := recv.(*ssa.UnOp); isLoad && ld.Op == token.MUL {
			fa, isFA = ld.X.(*ssa.FieldAddr)
		}
	}
	if !isFA {
		return "", nil, nil, false
	}
	st = fa.X.Type().Underlying().(*types.Pointer).Elem()
	su, isStruct := st.Underlying().(*types.Struct)
	if !isStruct {
		return "", nil, nil, false
	}
	obj = e.val(fa.X).T
	if tc := e.W.typeContract(st); tc != nil {
		decl = tc.lockDecl(su.Field(fa.Field).Name())
	}
	return obj, st, decl, true
}

// execLockOp handles sync.(RW)Mutex operations. Returns true if the call was handled.
func (e *Enc) execLockOp(op string, c *ssa.CallCommon, in ssa.Instruction) bool {
	if len(c.Args) < 1 {
		return false
	}
	recv := c.Args[0]
	lref := e.val(recv).T
	if g, isG := recv.(*ssa.Global); isG && g.Pkg != nil {
		if gd := e.W.C.GlobalLocks[g.Pkg.Pkg.Path()+"."+g.Name()]; gd != nil {
			e.execGlobalLockOp(op, gd, g, lref, in)
			return true
		}
	}
	if _, _, d, k := e.lockTarget(recv); !k || d == nil {
		// a lock that no `lock … protects` declaration mentions (e.g. a per-key user-level mutex handed from one
		// call to the next): not part of the monitor discipline, no sequential effect
		e.used["undeclared mutex operations have no effect in the sequential model (their exclusion semantics is sync's)"] = true
		return true
	}
	H := e.heldArr(e.cur)
	cur := tSel(H, lref)
	site := e.ordName("lock:" + op)
	obj, st, decl, known := e.lockTarget(recv)
	switch op {
	case "lock", "rlock":
		e.oblige("lock", site, tEq(cur, "0"), in.Pos(), "lock is not already held by this goroutine (self-deadlock)")
		v := "2"
		if op == "rlock" {
			v = "1"
		}
		e.hset(e.cur, "$held", heldSort, tStore(H, lref, v))
		if known && decl != nil {
			e.acquireHavoc(obj, st, decl)
			// rely: what other threads may have done since this thread last released the lock
			if rel, ok := e.lastRelease[decl]; ok && len(decl.Rely) > 0 {
				env := e.lockEnv(obj, st, e.cur, rel)
				for _, cl := range decl.Rely {
					e.assume(env.evalBool(cl.Expr))
				}
				e.used["rely/guarantee on "+st.String()+"."+decl.Field+": stable under other threads' write sections (each proved to satisfy it)"] = true
			}
			e.lastAcquire[decl] = e.cur.clone()
		}
	case "unlock", "runlock":
		want := "2"
		if op == "runlock" {
			want = "1"
		}
		e.oblige("lock", site, tEq(cur, want), in.Pos(), "unlock of a lock held in the matching mode")
		if known && decl != nil && op == "unlock" {
			env := e.newSpecEnv(e.cur, e.init)
			env.noLocals = true
			self := SV{T: obj, Sort: "Int", GT: types.NewPointer(st)}
			env.vars["self"] = self
			if n, ok := st.(*types.Named); ok && n.Obj().Pkg() != nil {
				env.pkg = n.Obj().Pkg()
			}
			for i, cl := range decl.Invs {
				o := e.oblige("lockinv", fmt.Sprintf("lockinv:%s.%d@%s", decl.Field, i, site), env.evalBool(cl.Expr), in.Pos(), cl.Src)
				o.setLabel(cl.Label)
			}
		}
		if known && decl != nil {
			if op == "unlock" && len(decl.Rely) > 0 {
				if acq, ok := e.lastAcquire[decl]; ok {
					env := e.lockEnv(obj, st, e.cur, acq)
					for i, cl := range decl.Rely {
						o := e.oblige("guar", fmt.Sprintf("guar:%s.%d@%s", decl.Field, i, site), env.evalBool(cl.Expr), in.Pos(), cl.Src)
						o.setLabel(cl.Label)
					}
				}
			}
			e.lastRelease[decl] = e.cur.clone()
		}
		e.hset(e.cur, "$held", heldSort, tStore(H, lref, "0"))
	}
	e.used["mutual exclusion and happens-before of sync.Mutex/RWMutex (monitor rule, DESIGN.md §3)"] = true
	return true
}

// acquireHavoc: after acquiring, the protected fields hold whatever other threads left there, constrained
// only by the lock invariant.
func (e *Enc) acquireHavoc(obj Term, st types.Type, decl *LockDecl) {
	su := st.Underlying().(*types.Struct)
	for i := 0; i < su.NumFields(); i++ {
		f := su.Field(i)
		prot := false
		for _, p := range decl.Protects {
			if p == f.Name() {
				prot = true
			}
		}
		if !prot {
			continue
		}
		l := e.fieldLoc(obj, st, i)
		if l.Heap == "" {
			// nested struct value (e.g. an atomic.Bool): havoc its scalar fields
			if isu, isS := f.Type().Underlying().(*types.Struct); isS {
				for fi := 0; fi < isu.NumFields(); fi++ {
					il := e.fieldLoc(l.Base, f.Type(), fi)
					if il.Heap == "" {
						continue
					}
					nv := e.fresh("acq_"+f.Name()+"_"+isu.Field(fi).Name(), e.sortOf(isu.Field(fi).Type()))
					e.store(e.cur, il, nv)
					e.assume(e.typeFacts(nv, isu.Field(fi).Type(), e.cur))
				}
			}
			continue
		}
		nv0 := e.fresh("acq_"+f.Name(), e.sortOf(f.Type()))
		e.assume(e.typeFacts(nv0, f.Type(), e.cur))
		// an object allocated in this activation and not yet shared keeps what this thread stored in it
		nv := e.define("acqv_"+f.Name(), e.sortOf(f.Type()), tIte(e.isFresh(obj), e.load(e.cur, l), nv0))
		e.store(e.cur, l, nv)
		if e.isFresh(obj) != tFalse {
			// contents reachable from the field are havocked only for shared objects: handled by the ite above for
			// the field itself; for maps/slices the content havoc below applies to the (possibly new) referent
		}
		switch u := f.Type().Underlying().(type) {
		case *types.Map:
			for _, h := range e.mapHeaps(u) {
				_, vs := splitArraySort(h[1])
				H := e.hget(e.cur, h[0], h[1])
				e.hset(e.cur, h[0], h[1], tIte(e.isFresh(obj), H, tStore(H, nv, e.fresh("acq_"+f.Name()+"_content", vs))))
			}
			ml := e.mapHeaps(u)[2]
			e.assume(tLe("0", tSel(e.hget(e.cur, ml[0], ml[1]), nv)))
		case *types.Slice:
			hs := fmt.Sprintf("(Array Int (Array Int %s))", e.sortOf(u.Elem()))
			h := elemHeap(u.Elem())
			H := e.hget(e.cur, h, hs)
			e.hset(e.cur, h, hs, tIte(e.isFresh(obj), H, tStore(H, sx("s-base", nv), e.fresh("acq_"+f.Name()+"_elems", fmt.Sprintf("(Array Int %s)", e.sortOf(u.Elem()))))))
		}
	}
	// `protects Type.field`: that field of every object of another struct type of the same package
	for _, p := range decl.Protects {
		if i := strings.Index(p, "."); i > 0 {
			n, ok := st.(*types.Named)
			if inst, isN := stripTypeArgs(st).(*types.Named); isN {
				n, ok = inst, true
			}
			if !ok || n.Obj().Pkg() == nil {
				continue
			}
			obj2 := n.Obj().Pkg().Scope().Lookup(p[:i])
			if obj2 == nil {
				e.unsupported("protects " + p + ": unknown type")
				continue
			}
			ot := obj2.Type()
			osu, isS := ot.Underlying().(*types.Struct)
			if !isS {
				continue
			}
			for fi := 0; fi < osu.NumFields(); fi++ {
				if osu.Field(fi).Name() == p[i+1:] {
					hn := fieldHeap(ot, fi)
					hs := fmt.Sprintf("(Array Int %s)", e.sortOf(osu.Field(fi).Type()))
					e.heapDecl(hn, hs)
					e.cur.h[hn] = e.fresh("acq_"+p, hs)
					e.noteWrite(hn)
				}
			}
		}
	}
	// ghost fields of the type are protected by its (single) lock as well when listed
	if tc := e.W.typeContract(st); tc != nil {
		for _, g := range tc.Ghosts {
			for _, p := range decl.Protects {
				if p == g.Name {
					srt, _ := ghostSort(e, g.Sort)
					hn := "GF$" + typeKey(stripTypeArgs(st)) + "." + g.Name
					hsrt := fmt.Sprintf("(Array Int %s)", srt)
					Hg := e.hget(e.cur, hn, hsrt)
					e.hset(e.cur, hn, hsrt, tIte(e.isFresh(obj), Hg, tStore(Hg, obj, e.fresh("acq_"+g.Name, srt))))
				}
			}
		}
	}
	env := e.newSpecEnv(e.cur, e.init)
	env.noLocals = true
	env.vars["self"] = SV{T: obj, Sort: "Int", GT: types.NewPointer(st)}
	if n, ok := st.(*types.Named); ok && n.Obj().Pkg() != nil {
		env.pkg = n.Obj().Pkg()
	}
	for _, cl := range decl.Invs {
		t := env.evalBool(cl.Expr)
		// an object allocated in this activation was not touched by anybody else: its lock invariant is not a gift of the
		// monitor rule but has to be established by this function before its first acquisition (a constructor that broke
		// it used to make the rest of its path vacuous)
		e.oblige("lock", e.ordName("lockinv:fresh"), tImp(e.isFresh(obj), t), token.NoPos, "the lock invariant of an object allocated in this activation holds at the acquisition: "+cl.Src)
		e.assume(t)
	}
}

// guardCheck: access to a protected field needs its lock (or a fresh, still unshared object).
func (e *Enc) guardCheck(addr ssa.Value, write bool, pos token.Pos) {
	if g, isG := addr.(*ssa.Global); isG {
		e.guardCheckGlobal(g, write, pos)
		return
	}
	fa, ok := addr.(*ssa.FieldAddr)
	if !ok {
		return
	}
	st := fa.X.Type().Underlying().(*types.Pointer).Elem()
	su, ok := st.Underlying().(*types.Struct)
	if !ok {
		return
	}
	tc := e.W.typeContract(st)
	if tc == nil || len(tc.Locks) == 0 {
		return
	}
	decl := tc.lockOf(su.Field(fa.Field).Name())
	if decl == nil {
		return
	}
	li := -1
	for i := 0; i < su.NumFields(); i++ {
		if su.Field(i).Name() == decl.Field {
			li = i
		}
	}
	if li < 0 {
		return
	}
	obj := e.val(fa.X).T
	lref := sx("subref", obj, tInt(int64(li)))
	if _, isPtr := su.Field(li).Type().Underlying().(*types.Pointer); isPtr {
		lref = e.load(e.cur, e.fieldLoc(obj, st, li))
	}
	h := tSel(e.heldArr(e.cur), lref)
	var goal Term
	kind := "guard:read"
	if write {
		kind = "guard:write"
		goal = tOr(e.isFresh(obj), tEq(h, "2"))
	} else {
		goal = tOr(e.isFresh(obj), tNot(tEq(h, "0")))
	}
	e.oblige("guard", e.ordName(kind), goal, pos, fmt.Sprintf("%s.%s accessed with %s held", st.String(), su.Field(fa.Field).Name(), decl.Field))
}

func (e *Enc) locksAtEntry() {
	if e.fc != nil && (e.fc.Opts["locks"] == "caller" || e.fc.Opts["locks"] == "release") {
		return
	}
	e.heapDecl("$held", heldSort)
	e.assumeG(tEq(smtName("$held@0"), "((as const (Array Int Int)) 0)"))
}

func (e *Enc) locksAtReturn(in *ssa.Return) {
	if _, used := e.heapSort["$held"]; !used {
		return
	}
	if e.fc != nil && (e.fc.Opts["locks"] == "transfer" || e.fc.Opts["locks"] == "release") {
		if e.fc.Opts["locks"] == "release" {
			e.used["lock hand-off: "+e.fn.String()+" starts with a lock held that the function which spawned it acquired, and releases it (its precondition states which; proved at the go statement of the spawner)"] = true
		} else {
			e.used["lock hand-off: "+e.fn.String()+" returns holding a lock that a goroutine it spawned releases"] = true
		}
		return
	}
	cur := e.heldArr(e.cur)
	if cur == smtName("$held@0") {
		return
	}
	e.oblige("guard", e.ordName("guard:exit"), tEq(cur, smtName("$held@0")), in.Pos(), "every lock acquired by this function is released on return")
}

func isLockKey(key string) (string, bool) {
	op, ok := lockOps[strings.TrimSpace(key)]
	return op, ok
}

func (e *Enc) lockEnv(obj Term, st types.Type, cur, old *State) *specEnv {
	env := e.newSpecEnv(cur, old)
	env.noLocals = true
	env.vars["self"] = SV{T: obj, Sort: "Int", GT: types.NewPointer(st)}
	if n, ok := st.(*types.Named); ok && n.Obj().Pkg() != nil {
		env.pkg = n.Obj().Pkg()
	}
	return env
}

// ---- package-level locks: `globallock mu protects var1 var2`, `globallockinv mu <expr>` ----

func (e *Enc) globalEnv(gd *LockDecl, g *ssa.Global) *specEnv {
	env := e.newSpecEnv(e.cur, e.init)
	env.noLocals = true
	env.pkg = g.Pkg.Pkg
	return env
}

func (e *Enc) execGlobalLockOp(op string, gd *LockDecl, g *ssa.Global, lref Term, in ssa.Instruction) {
	H := e.heldArr(e.cur)
	cur := tSel(H, lref)
	site := e.ordName("lock:" + op)
	switch op {
	case "lock", "rlock":
		e.oblige("lock", site, tEq(cur, "0"), in.Pos(), "lock is not already held by this goroutine (self-deadlock)")
		v := "2"
		if op == "rlock" {
			v = "1"
		}
		e.hset(e.cur, "$held", heldSort, tStore(H, lref, v))
		for _, p := range gd.Protects {
			pg, ok := g.Pkg.Members[p].(*ssa.Global)
			if !ok {
				e.unsupported("globallock protects unknown variable " + p)
				continue
			}
			l := e.globalLoc(pg)
			if l.Kind != lGlobal {
				continue
			}
			nv := e.fresh("acq_"+p, e.sortOf(l.Typ))
			e.assume(e.typeFacts(nv, l.Typ, e.cur))
			e.store(e.cur, l, nv)
			if mt, isMap := l.Typ.Underlying().(*types.Map); isMap {
				for _, h := range e.mapHeaps(mt) {
					_, vs := splitArraySort(h[1])
					Hm := e.hget(e.cur, h[0], h[1])
					e.hset(e.cur, h[0], h[1], tStore(Hm, nv, e.fresh("acq_"+p+"_content", vs)))
				}
				ml := e.mapHeaps(mt)[2]
				e.assume(tLe("0", tSel(e.hget(e.cur, ml[0], ml[1]), nv)))
			}
		}
		env := e.globalEnv(gd, g)
		for _, cl := range gd.Invs {
			e.assume(env.evalBool(cl.Expr))
		}
	case "unlock", "runlock":
		want := "2"
		if op == "runlock" {
			want = "1"
		}
		e.oblige("lock", site, tEq(cur, want), in.Pos(), "unlock of a lock held in the matching mode")
		if op == "unlock" {
			env := e.globalEnv(gd, g)
			for i, cl := range gd.Invs {
				o := e.oblige("lockinv", fmt.Sprintf("lockinv:%s.%d@%s", gd.Field, i, site), env.evalBool(cl.Expr), in.Pos(), cl.Src)
				o.setLabel(cl.Label)
			}
		}
		e.hset(e.cur, "$held", heldSort, tStore(H, lref, "0"))
	}
	e.used["mutual exclusion and happens-before of sync.Mutex/RWMutex (monitor rule, DESIGN.md §3)"] = true
}

// guardCheckGlobal: access to a package-level variable protected by a package-level lock.
func (e *Enc) guardCheckGlobal(g *ssa.Global, write bool, pos token.Pos) {
	if g.Pkg == nil {
		return
	}
	for full, gd := range e.W.C.GlobalLocks {
		if gd.Pkg != g.Pkg.Pkg.Path() {
			continue
		}
		for _, p := range gd.Protects {
			if p != g.Name() {
				continue
			}
			lg, ok := g.Pkg.Members[gd.Field].(*ssa.Global)
			if !ok {
				return
			}
			lref := e.val(lg).T
			h := tSel(e.heldArr(e.cur), lref)
			goal := tNot(tEq(h, "0"))
			kind := "guard:read"
			if write {
				goal = tEq(h, "2")
				kind = "guard:write"
			}
			e.oblige("guard", e.ordName(kind), goal, pos, fmt.Sprintf("%s accessed with %s held", g.Name(), full))
			return
		}
	}
}

// ---- locks a callee acquires: the caller must not hold them ----
//
// A function under contract is verified from an entry state in which its goroutine holds no lock (unless its contract
// says `opt locks=caller|release`). That is an implicit precondition: a caller that holds lock L and calls a function
// that acquires L deadlocks on a Mutex, and on an RWMutex a recursive read lock deadlocks as soon as a writer queues
// between the two acquisitions. calleeLocks finds the declared locks a callee acquires itself (package-level locks;
// mutex fields of one of its parameters) and, one level down, the package-level locks its static callees acquire.

type calleeLock struct {
	global *ssa.Global // package-level lock, or
	param  int         // index into fn.Params of the object whose field is the lock
	st     types.Type
	field  int
	desc   string
}

func (w *World) calleeLocks(fn *ssa.Function, depth int) []calleeLock {
	if fn == nil || fn.Blocks == nil {
		return nil
	}
	if w.calleeLockMemo == nil {
		w.calleeLockMemo = map[*ssa.Function][]calleeLock{}
	}
	if r, ok := w.calleeLockMemo[fn]; ok && depth == 0 {
		return r
	}
	var out []calleeLock
	seen := map[string]bool{}
	add := func(cl calleeLock) {
		if !seen[cl.desc] {
			seen[cl.desc] = true
			out = append(out, cl)
		}
	}
	for _, b := range fn.Blocks {
		for _, in := range b.Instrs {
			var cc *ssa.CallCommon
			switch x := in.(type) {
			case *ssa.Call:
				cc = &x.Call
			case *ssa.Defer:
				continue // a deferred Lock is not a pattern; deferred Unlocks are irrelevant here
			default:
				continue
			}
			callee := cc.StaticCallee()
			if callee == nil {
				continue
			}
			op, isLock := lockOps[callee.String()]
			if isLock && (op == "lock" || op == "rlock") && len(cc.Args) > 0 {
				recv := cc.Args[0]
				if g, ok := recv.(*ssa.Global); ok && g.Pkg != nil {
					if w.C.GlobalLocks[g.Pkg.Pkg.Path()+"."+g.Name()] != nil {
						add(calleeLock{global: g, desc: g.Pkg.Pkg.Path() + "." + g.Name()})
					}
					continue
				}
				fa, isFA := recv.(*ssa.FieldAddr)
				if !isFA {
					if ld, isLoad := recv.(*ssa.UnOp); isLoad && ld.Op == token.MUL {
						fa, isFA = ld.X.(*ssa.FieldAddr)
					}
				}
				if !isFA {
					continue
				}
				p, isParam := fa.X.(*ssa.Parameter)
				if !isParam {
					continue
				}
				st := fa.X.Type().Underlying().(*types.Pointer).Elem()
				su, isStruct := st.Underlying().(*types.Struct)
				if !isStruct {
					continue
				}
				tc := w.typeContract(st)
				if tc == nil || tc.lockDecl(su.Field(fa.Field).Name()) == nil {
					continue
				}
				for i, q := range fn.Params {
					if q == p {
						add(calleeLock{param: i, st: st, field: fa.Field, desc: fmt.Sprintf("%s.%s of parameter %s", st.String(), su.Field(fa.Field).Name(), p.Name())})
					}
				}
				continue
			}
			if depth == 0 && callee.Pkg != nil && fn.Pkg != nil && callee.Pkg == fn.Pkg {
				for _, cl := range w.calleeLocks(callee, depth+1) {
					if cl.global != nil {
						add(cl)
					}
				}
			}
		}
	}
	if depth == 0 {
		w.calleeLockMemo[fn] = out
	}
	return out
}

// calleeLockObligations: at a call of sfn with the given argument values, none of the locks sfn acquires is held.
func (e *Enc) calleeLockObligations(sfn *ssa.Function, args []Val, pos token.Pos) {
	if sfn == nil {
		return
	}
	g := sfn
	if sfn.Origin() != nil {
		g = sfn.Origin()
	}
	locks := e.W.calleeLocks(g, 0)
	if len(locks) == 0 {
		return
	}
	for _, cl := range locks {
		var lref Term
		if cl.global != nil {
			lref = e.val(cl.global).T
		} else {
			if cl.param >= len(args) {
				continue
			}
			x := args[cl.param].T
			l := e.fieldLoc(x, cl.st, cl.field)
			if l.Heap == "" {
				lref = l.Base
			} else {
				lref = sx("subref", x, tInt(int64(cl.field)))
			}
		}
		e.heapDecl("$held", heldSort)
		H := e.heldArr(e.cur)
		e.oblige("lock", e.ordName("lock:callee-acquires"), tEq(tSel(H, lref), "0"), pos, "the callee "+sfn.String()+" acquires "+cl.desc+": it must not be held at the call (self-deadlock; a recursive read lock deadlocks once a writer queues in between)")
	}
}
