package main

import (
	"bytes"
	"context"
	"encoding/json"
	"fmt"
	"os"
	"os/exec"
	"path/filepath"
	"regexp"
	"strconv"
	"strings"
	"time"
)

// Bounded stand-ins (labelled bounded, never counted as proved): an in-package test run through
// `go test -overlay` against the real code, for the part of a property no contract within reach decides.
type boundedSpec struct {
	Property    string            `json:"property"`
	Name        string            `json:"name"`
	Pkg         string            `json:"pkg"`
	TestFile    string            `json:"test_file"`
	Run         string            `json:"run"`
	QuickN      int               `json:"quick_n"`
	ThoroughN   int               `json:"thorough_n"`
	Bound       string            `json:"bound"`
	StandsInFor string            `json:"stands_in_for"`
	Env         map[string]string `json:"env"`
	Function    string            `json:"function"`
}

type boundedResult struct {
	Spec   boundedSpec
	Known  string // the test's BOUNDED-KNOWN line: instances of a recorded known finding (wrong in exactly the recorded way)
	OK     bool
	Cases  int
	Output string
	WallS  float64
}

func loadBounded(prop string) []boundedSpec {
	b, err := os.ReadFile(filepath.Join(verifDir, "bounded", "index.json"))
	if err != nil {
		return nil
	}
	var all []boundedSpec
	if err := json.Unmarshal(b, &all); err != nil {
		fmt.Fprintln(os.Stderr, "bounded/index.json:", err)
		return nil
	}
	var out []boundedSpec
	for _, s := range all {
		if s.Property == prop {
			out = append(out, s)
		}
	}
	return out
}

var casesRe = regexp.MustCompile(`BOUNDED-OK\s+\w+=(\d+)`)

func runBounded(s boundedSpec, tier string, seed int, scratch string) boundedResult {
	res := boundedResult{Spec: s}
	t0 := time.Now()
	src, err := os.ReadFile(filepath.Join(verifDir, "bounded", s.TestFile))
	if err != nil {
		res.Output = err.Error()
		return res
	}
	dir := filepath.Join(repoDir, s.Pkg)
	tf := filepath.Join(scratch, "bounded_"+sanitize(s.Name)+"_test.go")
	os.WriteFile(tf, src, 0o644)
	ov, _ := json.Marshal(map[string]interface{}{"Replace": map[string]string{filepath.Join(dir, "zz_govc_bounded_test.go"): tf}})
	ovf := filepath.Join(scratch, "bounded_"+sanitize(s.Name)+".json")
	os.WriteFile(ovf, ov, 0o644)
	n := s.QuickN
	timeout := "300s"
	if tier == "thorough" {
		n = s.ThoroughN
		timeout = "3000s"
	}
	ctx, cancel := context.WithTimeout(context.Background(), 3100*time.Second)
	defer cancel()
	cmd := exec.CommandContext(ctx, "bash", "-c", fmt.Sprintf("cd %q && go test -tags verif -overlay %q -vet=off -count=1 -timeout %s -run '^%s$' -v .", dir, ovf, timeout, s.Run))
	cmd.Env = append(os.Environ(), "GOFLAGS=-mod=mod", "GOPROXY=off", "GOSUMDB=off", "GOTOOLCHAIN=local",
		"GOVC_BOUNDED_N="+strconv.Itoa(n), "VERIF_SEED="+strconv.Itoa(seed))
	for k, v := range s.Env {
		cmd.Env = append(cmd.Env, k+"="+v)
	}
	var out bytes.Buffer
	cmd.Stdout = &out
	cmd.Stderr = &out
	cmd.Run()
	full := out.String()
	res.WallS = time.Since(t0).Seconds()
	res.Known = firstLines(grepLine(full, "BOUNDED-KNOWN"), 1)
	if m := casesRe.FindStringSubmatch(full); m != nil && !strings.Contains(full, "BOUNDED-FAIL") && strings.Contains(full, "\nok ") {
		res.OK = true
		res.Cases, _ = strconv.Atoi(m[1])
	}
	// keep the verdict lines and the tail of a long output
	res.Output = grepLine(full, "BOUNDED-") + "\n"
	if len(full) > 4000 {
		res.Output += "…\n" + full[len(full)-4000:]
	} else {
		res.Output += full
	}
	return res
}
