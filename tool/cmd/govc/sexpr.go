package main

import "strings"

// sx-tree: minimal s-expression reader used for quantifier normalisation and model parsing.
type sxNode struct {
	atom string
	kids []*sxNode
	list bool
}

func parseSx(s string) *sxNode {
	pos := 0
	var parse func() *sxNode
	skip := func() {
		for pos < len(s) && (s[pos] == ' ' || s[pos] == '\n' || s[pos] == '\t' || s[pos] == '\r') {
			pos++
		}
	}
	parse = func() *sxNode {
		skip()
		if pos >= len(s) {
			return nil
		}
		if s[pos] == '(' {
			pos++
			n := &sxNode{list: true}
			for {
				skip()
				if pos >= len(s) {
					return n
				}
				if s[pos] == ')' {
					pos++
					return n
				}
				k := parse()
				if k == nil {
					return n
				}
				n.kids = append(n.kids, k)
			}
		}
		start := pos
		if s[pos] == '|' {
			pos++
			for pos < len(s) && s[pos] != '|' {
				pos++
			}
			pos++
			return &sxNode{atom: s[start:pos]}
		}
		if s[pos] == '"' {
			pos++
			for pos < len(s) && s[pos] != '"' {
				pos++
			}
			pos++
			return &sxNode{atom: s[start:pos]}
		}
		for pos < len(s) && !strings.ContainsRune(" \n\t\r()", rune(s[pos])) {
			pos++
		}
		return &sxNode{atom: s[start:pos]}
	}
	return parse()
}

func parseSxAll(s string) []*sxNode {
	var out []*sxNode
	rest := s
	for {
		rest = strings.TrimSpace(rest)
		if rest == "" {
			return out
		}
		// find the end of the first expression
		n, used := parseSxPrefix(rest)
		if n == nil || used == 0 {
			return out
		}
		out = append(out, n)
		rest = rest[used:]
	}
}

func parseSxPrefix(s string) (*sxNode, int) {
	depth := 0
	inBar := false
	for i := 0; i < len(s); i++ {
		c := s[i]
		if inBar {
			if c == '|' {
				inBar = false
			}
			continue
		}
		switch c {
		case '|':
			inBar = true
		case '(':
			depth++
		case ')':
			depth--
			if depth == 0 {
				return parseSx(s[:i+1]), i + 1
			}
		case ' ', '\n', '\t':
			if depth == 0 && i > 0 {
				return parseSx(s[:i]), i
			}
		}
	}
	if depth == 0 {
		return parseSx(s), len(s)
	}
	return nil, 0
}

func (n *sxNode) String() string {
	if n == nil {
		return ""
	}
	if !n.list {
		return n.atom
	}
	var sb strings.Builder
	sb.WriteByte('(')
	for i, k := range n.kids {
		if i > 0 {
			sb.WriteByte(' ')
		}
		sb.WriteString(k.String())
	}
	sb.WriteByte(')')
	return sb.String()
}

func (n *sxNode) head() string {
	if n != nil && n.list && len(n.kids) > 0 && !n.kids[0].list {
		return n.kids[0].atom
	}
	return ""
}

func (n *sxNode) mentions(v string) bool {
	if !n.list {
		return n.atom == v
	}
	for _, k := range n.kids {
		if k.mentions(v) {
			return true
		}
	}
	return false
}

// findOffsetIndex finds the first (select A (+ OFF v)) with OFF free of v; returns OFF and the select term's array.
func findOffsetIndex(n *sxNode, v string) (off *sxNode, found bool) {
	if !n.list {
		return nil, false
	}
	if n.head() == "select" && len(n.kids) == 3 {
		// inner arrays first (left to right order of appearance)
		if o, ok := findOffsetIndex(n.kids[1], v); ok {
			return o, true
		}
		idx := n.kids[2]
		if idx.head() == "+" && len(idx.kids) == 3 && !idx.kids[2].list && idx.kids[2].atom == v && !idx.kids[1].mentions(v) {
			return idx.kids[1], true
		}
		if o, ok := findOffsetIndex(idx, v); ok {
			return o, true
		}
		return nil, false
	}
	for _, k := range n.kids {
		if o, ok := findOffsetIndex(k, v); ok {
			return o, true
		}
	}
	return nil, false
}

// substIndex rewrites the body for v := k - OFF: (+ OFF v) -> k, other v -> (- k OFF). Collects select patterns on k.
func substIndex(n *sxNode, v, k string, off *sxNode, pats *[]string) *sxNode {
	if !n.list {
		if n.atom == v {
			return &sxNode{list: true, kids: []*sxNode{{atom: "-"}, {atom: k}, off}}
		}
		return n
	}
	if n.head() == "+" && len(n.kids) == 3 && !n.kids[2].list && n.kids[2].atom == v && n.kids[1].String() == off.String() {
		return &sxNode{atom: k}
	}
	out := &sxNode{list: true}
	for _, c := range n.kids {
		out.kids = append(out.kids, substIndex(c, v, k, off, pats))
	}
	if out.head() == "select" && len(out.kids) == 3 && !out.kids[2].list && out.kids[2].atom == k && !out.kids[1].mentions(k) {
		p := out.String()
		dup := false
		for _, q := range *pats {
			if q == p {
				dup = true
			}
		}
		if !dup {
			*pats = append(*pats, p)
		}
	}
	return out
}

// collectSelectPats lists (select A v) terms with A free of v.
func collectSelectPats(n *sxNode, v string, pats *[]string) {
	if !n.list {
		return
	}
	if n.head() == "select" && len(n.kids) == 3 && !n.kids[2].list && n.kids[2].atom == v && !n.kids[1].mentions(v) {
		p := n.String()
		for _, q := range *pats {
			if q == p {
				return
			}
		}
		*pats = append(*pats, p)
	}
	for _, k := range n.kids {
		collectSelectPats(k, v, pats)
	}
}

// normalizeQuant applies rule (i) of DESIGN §2.4 to a single-variable integer quantifier body.
func normalizeQuant(body Term, v string) (newBody Term, pats []string) {
	tree := parseSx(body)
	if tree == nil {
		return body, nil
	}
	off, ok := findOffsetIndex(tree, v)
	if !ok {
		collectSelectPats(tree, v, &pats)
		return body, pats
	}
	nb := substIndex(tree, v, v, off, &pats)
	return nb.String(), pats
}
