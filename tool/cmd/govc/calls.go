package main

import (
	"fmt"
	"go/token"
	"go/types"
	"sort"
	"strconv"
	"strings"

	"golang.org/x/tools/go/ssa"
)

type frameItem struct {
	Heap     string
	HeapSort string
	Key      Term // "" => the whole state variable
	KeySort  string
	Lo, Hi   Term // "" => whole object at Key
	Src      string
}

type implUse struct {
	fn string
	it types.Type
}

// ---------- sentinels ----------

func (e *Enc) sentinel(g *ssa.Global) (Term, bool) {
	elem := g.Type().(*types.Pointer).Elem()
	if !isErrorType(elem) {
		return "", false
	}
	return e.sentinelByName(g.Pkg.Pkg.Path() + "." + g.Name()), true
}

func (e *Enc) sentinelByName(full string) Term {
	name := smtName("sent$" + full)
	if _, ok := e.declOf[name]; ok {
		return name
	}
	e.declare(name, "Iface")
	e.assumeGFront(tAnd(tLt("0", sx("i-typ", name)), tLt(sx("i-val", name), smtName("$alloc@0"))))
	for _, o := range e.sentinels {
		e.assumeGFront(tNot(tEq(name, o)))
	}
	e.sentinels = append(e.sentinels, name)
	e.used["sentinel errors are distinct non-nil constants: "+full] = true
	return name
}

// ---------- lvalues / frames ----------

func (env *specEnv) lvalue(x SExpr) []frameItem {
	e := env.e
	src := specString(x)
	switch x := x.(type) {
	case *SIdent:
		if e.fc != nil && !env.noLocals {
			for _, g := range e.fc.Ghosts {
				if g.Name == x.Name {
					srt, _ := ghostSort(e, g.Sort)
					return []frameItem{{Heap: "$g$" + x.Name, HeapSort: srt, Src: src}}
				}
			}
		}
		if g, ok := e.W.C.GhostVar[x.Name]; ok {
			srt, _ := ghostSort(e, g.Sort)
			return []frameItem{{Heap: "$gv$" + x.Name, HeapSort: srt, Src: src}}
		}
		if g, ok := e.W.C.IfaceGh[x.Name]; ok {
			if _, bound := env.vars[x.Name]; !bound {
				srt, _ := ghostSort(e, g.Sort)
				return []frameItem{{Heap: "GI$" + x.Name, HeapSort: fmt.Sprintf("(Array Iface %s)", srt), Src: src}}
			}
		}
		if env.pkg != nil {
			if obj := env.pkg.Scope().Lookup(x.Name); obj != nil {
				if v, ok := obj.(*types.Var); ok {
					return []frameItem{{Heap: "G$" + v.Pkg().Path() + "." + v.Name(), HeapSort: e.sortOf(v.Type()), Src: src}}
				}
			}
		}
		if pv, ok := env.ptrVars[x.Name]; ok {
			l := e.refLoc(pv.Ref, pv.Elem)
			return e.locItems(l, src)
		}
		env.fail("cannot use %s as a frame item", src)
	case *SSliceE:
		b := env.eval(x.X)
		if b.Sort != "Slice" {
			env.fail("frame item %s: not a slice", src)
		}
		elem := b.GT.Underlying().(*types.Slice).Elem()
		lo := "0"
		if x.Lo != nil {
			lo = env.evalInt(x.Lo)
		}
		hi := sx("s-len", b.T)
		if x.Hi != nil {
			hi = env.evalInt(x.Hi)
		}
		off := sx("s-off", b.T)
		return []frameItem{{Heap: elemHeap(elem), HeapSort: fmt.Sprintf("(Array Int (Array Int %s))", e.sortOf(elem)), Key: sx("s-base", b.T), KeySort: "Int", Lo: tAdd(off, lo), Hi: tAdd(off, hi), Src: src}}
	case *SIndex:
		b := env.eval(x.X)
		i := env.evalInt(x.I)
		if b.Sort == "Slice" {
			elem := b.GT.Underlying().(*types.Slice).Elem()
			off := sx("s-off", b.T)
			return []frameItem{{Heap: elemHeap(elem), HeapSort: fmt.Sprintf("(Array Int (Array Int %s))", e.sortOf(elem)), Key: sx("s-base", b.T), KeySort: "Int", Lo: tAdd(off, i), Hi: tAdd(tAdd(off, i), "1"), Src: src}}
		}
		env.fail("frame item %s: unsupported index", src)
	case *SUn:
		if x.Op == "*" {
			v := env.eval(x.X)
			pt, ok := v.GT.Underlying().(*types.Pointer)
			if !ok {
				env.fail("frame item %s: not a pointer", src)
			}
			return e.locItems(e.refLoc(v.T, pt.Elem()), src)
		}
	case *SCall:
		if id, ok := x.Fn.(*SIdent); ok && id.Name == "fields" {
			v := env.eval(x.Args[0])
			pt, ok := v.GT.Underlying().(*types.Pointer)
			if !ok {
				env.fail("fields(%s): not a pointer", specString(x.Args[0]))
			}
			items := e.locItems(e.refLoc(v.T, pt.Elem()), src)
			if tc := e.W.typeContract(pt.Elem()); tc != nil {
				for _, g := range tc.Ghosts {
					srt, _ := ghostSort(e, g.Sort)
					items = append(items, frameItem{Heap: "GF$" + typeKey(stripTypeArgs(pt.Elem())) + "." + g.Name, HeapSort: fmt.Sprintf("(Array Int %s)", srt), Key: v.T, KeySort: "Int", Src: src})
				}
			}
			return items
		}
		if id, ok := x.Fn.(*SIdent); ok && id.Name == "deref" {
			if lit, isLit := x.Args[1].(*SLit); isLit && lit.Kind == "string" {
				if name, err := strconv.Unquote(lit.Val); err == nil && e.W.parseTypeName(name) == nil {
					return nil // a type that is not loaded: no pointer to it can be passed
				}
			}
			return e.locItems(env.derefLoc(x), src)
		}
		if id, ok := x.Fn.(*SIdent); ok && id.Name == "allof" {
			// allof(x.f): field f of every object of x's type
			hn, hs := env.fieldHeapOf(x.Args[0])
			return []frameItem{{Heap: hn, HeapSort: hs, Src: src}}
		}
		if id, ok := x.Fn.(*SIdent); ok && id.Name == "mapsof" {
			// mapsof(x.f): the content of every map of the type of x.f (for lock-protected map fields, whose current
			// value cannot be named in an entry-state frame)
			v := env.eval(x.Args[0])
			mt, ok := v.GT.Underlying().(*types.Map)
			if !ok {
				env.fail("mapsof(%s): not a map", specString(x.Args[0]))
			}
			var items []frameItem
			for _, h := range e.mapHeaps(mt) {
				items = append(items, frameItem{Heap: h[0], HeapSort: h[1], Src: src})
			}
			return items
		}
		if id, ok := x.Fn.(*SIdent); ok && id.Name == "mapof" {
			v := env.eval(x.Args[0])
			mt, ok := v.GT.Underlying().(*types.Map)
			if !ok {
				env.fail("mapof(%s): not a map", specString(x.Args[0]))
			}
			var items []frameItem
			for _, h := range e.mapHeaps(mt) {
				items = append(items, frameItem{Heap: h[0], HeapSort: h[1], Key: v.T, KeySort: "Int", Src: src})
			}
			return items
		}
	case *SSel:
		b := env.eval(x.X)
		if b.Sort == "Iface" {
			if g, ok := e.W.C.IfaceGh[x.Sel]; ok {
				srt, _ := ghostSort(e, g.Sort)
				return []frameItem{{Heap: "GI$" + x.Sel, HeapSort: fmt.Sprintf("(Array Iface %s)", srt), Key: b.T, KeySort: "Iface", Src: src}}
			}
			env.fail("frame item %s: unknown interface ghost", src)
		}
		if b.GT == nil {
			env.fail("frame item %s: untyped", src)
		}
		pt, ok := b.GT.Underlying().(*types.Pointer)
		if !ok {
			env.fail("frame item %s: base is not a pointer", src)
		}
		t := pt.Elem()
		if tc := e.W.typeContract(t); tc != nil {
			for _, g := range tc.Ghosts {
				if g.Name == x.Sel {
					srt, _ := ghostSort(e, g.Sort)
					return []frameItem{{Heap: "GF$" + typeKey(stripTypeArgs(t)) + "." + x.Sel, HeapSort: fmt.Sprintf("(Array Int %s)", srt), Key: b.T, KeySort: "Int", Src: src}}
				}
			}
		}
		st, ok := t.Underlying().(*types.Struct)
		if !ok {
			env.fail("frame item %s: not a struct", src)
		}
		for i := 0; i < st.NumFields(); i++ {
			if st.Field(i).Name() == x.Sel {
				return e.locItems(e.fieldLoc(b.T, t, i), src)
			}
		}
		env.fail("frame item %s: no such field", src)
	}
	env.fail("unsupported frame item %s", src)
	return nil
}

// locItems lists the heap cells covered by a location (recursively for whole structs).
func (e *Enc) locItems(l *Loc, src string) []frameItem {
	switch l.Kind {
	case lGlobal:
		return []frameItem{{Heap: l.Heap, HeapSort: e.sortOf(l.Typ), Src: src}}
	case lCell:
		return []frameItem{{Heap: l.Heap, HeapSort: fmt.Sprintf("(Array Int %s)", e.sortOf(l.Typ)), Key: l.Base, KeySort: "Int", Src: src}}
	case lElem:
		if l.Heap == "" {
			at := l.Typ.Underlying().(*types.Array)
			return []frameItem{{Heap: elemHeap(at.Elem()), HeapSort: fmt.Sprintf("(Array Int (Array Int %s))", e.sortOf(at.Elem())), Key: l.Base, KeySort: "Int", Src: src}}
		}
		return []frameItem{{Heap: l.Heap, HeapSort: fmt.Sprintf("(Array Int (Array Int %s))", e.sortOf(l.Typ)), Key: l.Base, KeySort: "Int", Lo: l.Idx, Hi: tAdd(l.Idx, "1"), Src: src}}
	case lField:
		if l.Heap == "" {
			st := l.Typ.Underlying().(*types.Struct)
			var out []frameItem
			for i := 0; i < st.NumFields(); i++ {
				out = append(out, e.locItems(e.fieldLoc(l.Base, l.Typ, i), src)...)
			}
			return out
		}
		return []frameItem{{Heap: l.Heap, HeapSort: fmt.Sprintf("(Array Int %s)", e.sortOf(l.Typ)), Key: l.Base, KeySort: "Int", Src: src}}
	}
	return nil
}

func (e *Enc) myModItems() []frameItem {
	if e.modParsed {
		return e.modItems
	}
	e.modParsed = true
	if e.fc == nil {
		return nil
	}
	saved := e.curReach
	e.curReach = tTrue
	env := e.newSpecEnv(e.init, e.init)
	for _, cl := range e.fc.Modifies {
		e.modItems = append(e.modItems, env.lvalue(cl.Expr)...)
	}
	e.curReach = saved
	return e.modItems
}

// rootRef strips sub-object references syntactically.
func rootRef(t Term) Term {
	for strings.HasPrefix(t, "(subref ") {
		inner := t[len("(subref ") : len(t)-1]
		depth := 0
		cut := -1
		for i := 0; i < len(inner); i++ {
			switch inner[i] {
			case '(':
				depth++
			case ')':
				depth--
			case ' ':
				if depth == 0 && cut < 0 {
					cut = i
				}
			}
		}
		if cut < 0 {
			break
		}
		t = inner[:cut]
	}
	return t
}

func (e *Enc) isFresh(ref Term) Term {
	return tLe(smtName("$alloc@0"), rootRef(ref))
}

// allowedWrite: the write described by it is within fresh memory or the function's modifies clause.
func (e *Enc) allowedWrite(it frameItem) Term {
	var alts []Term
	if it.KeySort == "Int" && it.Key != "" {
		alts = append(alts, e.isFresh(it.Key))
	}
	if it.KeySort == "Iface" && it.Key != "" {
		// ghost state of an interface value whose payload was allocated in this activation
		alts = append(alts, e.isFresh(sx("i-val", it.Key)))
	}
	if it.Lo != "" {
		alts = append(alts, tLe(it.Hi, it.Lo)) // empty range
	}
	for _, m := range e.myModItems() {
		if m.Heap != it.Heap {
			continue
		}
		if m.Key == "" {
			alts = append(alts, tTrue)
			continue
		}
		if it.Key == "" {
			continue
		}
		c := tEq(m.Key, it.Key)
		if m.Lo != "" {
			if it.Lo == "" {
				continue
			}
			c = tAnd(c, tLe(m.Lo, it.Lo), tLe(it.Hi, m.Hi))
		}
		alts = append(alts, c)
	}
	return tOr(alts...)
}

func (e *Enc) frameCheckLoc(l *Loc, pos token.Pos) {
	if e.fc == nil || !e.fc.HasModifies {
		return
	}
	for _, it := range e.locItems(l, "") {
		if strings.HasPrefix(it.Heap, "$") {
			continue
		}
		e.oblige("frame", e.ordName("frame:store"), e.allowedWrite(it), pos, "write within modifies clause or fresh memory: "+it.Heap)
	}
}

func (e *Enc) frameCheckItems(items []frameItem, pos token.Pos, what string) {
	if e.fc == nil || !e.fc.HasModifies {
		return
	}
	for _, it := range items {
		if strings.HasPrefix(it.Heap, "$g$") {
			continue
		}
		e.oblige("frame", e.ordName("frame:"+what), e.allowedWrite(it), pos, "callee effect within modifies clause or fresh memory: "+it.Heap+" "+it.Src)
	}
}

// applyItems produces the post-call state for a set of modified items.
func (e *Enc) applyItems(items []frameItem) {
	for _, it := range items {
		e.heapDecl(it.Heap, it.HeapSort)
		H := e.hget(e.cur, it.Heap, it.HeapSort)
		if it.Key == "" {
			e.cur.h[it.Heap] = e.fresh(it.Heap+"_call", it.HeapSort)
			e.noteWrite(it.Heap)
			continue
		}
		_, vs := splitArraySort(it.HeapSort)
		nv := e.fresh(it.Heap+"_new", vs)
		if it.Lo != "" {
			lo := e.define("lo", "Int", it.Lo)
			hi := e.define("hi", "Int", it.Hi)
			e.assume(fmt.Sprintf("(forall ((i!f Int)) (! (=> (not (and (<= %s i!f) (< i!f %s))) (= (select %s i!f) (select (select %s %s) i!f))) :pattern ((select %s i!f))))", lo, hi, nv, H, it.Key, nv))
		}
		e.hset(e.cur, it.Heap, it.HeapSort, tStore(H, it.Key, nv))
	}
}

// privCell is the cell of a local variable of this activation whose address no callee can obtain.
type privCell struct {
	heap, sort string
	ref        Term
}

// isPrivateAlloc: the address of the allocated cell is used only by loads, stores and as a binding of closures
// that this function merely calls or defers (so no other code can reach the variable).
func isPrivateAlloc(a *ssa.Alloc) bool {
	refs := a.Referrers()
	if refs == nil {
		return false
	}
	for _, r := range *refs {
		switch r := r.(type) {
		case *ssa.DebugRef:
		case *ssa.UnOp:
			if r.Op != token.MUL {
				return false
			}
		case *ssa.Store:
			if r.Addr != ssa.Value(a) {
				return false // the address itself is stored somewhere
			}
		case *ssa.MakeClosure:
			crefs := r.Referrers()
			if crefs == nil {
				return false
			}
			for _, cr := range *crefs {
				switch cr := cr.(type) {
				case *ssa.DebugRef:
				case *ssa.Defer:
					if cr.Call.Value != ssa.Value(r) {
						return false
					}
				case *ssa.Call:
					if cr.Call.Value != ssa.Value(r) {
						return false
					}
				default:
					return false
				}
			}
		default:
			return false
		}
	}
	return true
}

func (e *Enc) havocAll() { e.havocAllExcept(true) }

// havocAllExcept havocs every heap; with keepPrivate the private cells of this activation keep their values
// (an unknown callee cannot reach them).
func (e *Enc) havocAllExcept(keepPrivate bool) {
	type saved struct {
		c privCell
		v Term
	}
	var keep []saved
	if keepPrivate {
		for _, c := range e.privCells {
			H := e.hget(e.cur, c.heap, c.sort)
			keep = append(keep, saved{c, e.define("keep_"+c.heap, strings.TrimSuffix(strings.TrimPrefix(c.sort, "(Array Int "), ")"), tSel(H, c.ref))})
		}
	}
	defer func() {
		for _, k := range keep {
			H := e.hget(e.cur, k.c.heap, k.c.sort)
			e.cur.h[k.c.heap] = e.define(k.c.heap, k.c.sort, tStore(H, k.c.ref, k.v))
		}
	}()
	e.havocAllRaw()
}

func (e *Enc) havocAllRaw() {
	for _, n := range e.heapOrder {
		if n == "$alloc" || n == "$held" || strings.HasPrefix(n, "$defer") || strings.HasPrefix(n, "$g$") {
			continue // allocation counter handled below; lock state and function-level ghosts are not code-visible
		}
		e.cur.h[n] = e.fresh(n+"_havoc", e.heapSort[n])
	}
	e.noteWrite("*")
	e.bumpAlloc()
}

func (e *Enc) bumpAlloc() {
	a := e.alloc(e.cur)
	na := e.fresh("$alloc", "Int")
	e.assume(tLe(a, na))
	e.cur.h["$alloc"] = na
	e.noteWrite("$alloc")
}

// assumeFrameSince: after havocking the heaps in mod (loop head), memory that this function may not write
// still has its entry content (justified by the per-write frame obligations).
func (e *Enc) assumeFrameSince(pre *State, mod []string) {
	if e.fc == nil || !e.fc.HasModifies {
		return
	}
	items := e.myModItems()
	a0 := smtName("$alloc@0")
	for _, name := range mod {
		srt := e.heapSort[name]
		if !strings.HasPrefix(srt, "(Array ") || strings.HasPrefix(name, "$") {
			continue
		}
		ks, vs := splitArraySort(srt)
		H := e.cur.h[name]
		H0 := smtName(name + "@0")
		var excl []Term
		whole := false
		for _, m := range items {
			if m.Heap != name {
				continue
			}
			if m.Key == "" {
				whole = true
				break
			}
			excl = append(excl, tEq("k!f", m.Key))
		}
		if whole {
			continue
		}
		guard := tNot(tOr(excl...))
		if ks == "Int" {
			guard = tAnd(tLt("k!f", a0), tLe("0", "k!f"), guard)
		}
		if ks == "Iface" {
			guard = tAnd(tLt("(i-val k!f)", a0), guard)
		}
		e.assume(fmt.Sprintf("(forall ((k!f %s)) (! (=> %s (= (select %s k!f) (select %s k!f))) :pattern ((select %s k!f))))", ks, guard, H, H0, H))
		// ranges: outside the range the object is unchanged
		for _, m := range items {
			if m.Heap != name || m.Lo == "" {
				continue
			}
			_ = vs
			e.assume(fmt.Sprintf("(forall ((i!f Int)) (! (=> (not (and (<= %s i!f) (< i!f %s))) (= (select (select %s %s) i!f) (select (select %s %s) i!f))) :pattern ((select (select %s %s) i!f))))", m.Lo, m.Hi, H, m.Key, H0, m.Key, H, m.Key))
		}
	}
}

// ---------- calls ----------

func calleeName(c *ssa.CallCommon) (key string, short string, sig *types.Signature, fn *ssa.Function) {
	if c.IsInvoke() {
		m := c.Method
		sig = m.Type().(*types.Signature)
		recv := sig.Recv().Type()
		return "(" + types.TypeString(recv, nil) + ")." + m.Name(), m.Name(), sig, nil
	}
	if f := c.StaticCallee(); f != nil {
		g := f
		if f.Origin() != nil {
			g = f.Origin()
		}
		return g.String(), g.Name(), f.Signature, f
	}
	sig, _ = c.Value.Type().Underlying().(*types.Signature)
	switch n := c.Value.Type().(type) {
	case *types.Named:
		return "functype " + n.String(), n.Obj().Name(), sig, nil
	case *types.Alias:
		name := n.Obj().Name()
		if n.Obj().Pkg() != nil {
			name = n.Obj().Pkg().Path() + "." + name
		}
		return "functype " + name, n.Obj().Name(), sig, nil
	}
	return "", "funcvalue", sig, nil
}

func hasRefType(t types.Type, depth int) bool {
	if depth > 4 {
		return true
	}
	if isTypeParam(t) {
		return true
	}
	switch u := t.Underlying().(type) {
	case *types.Basic:
		return u.Kind() == types.UnsafePointer
	case *types.Struct:
		for i := 0; i < u.NumFields(); i++ {
			if hasRefType(u.Field(i).Type(), depth+1) {
				return true
			}
		}
		return false
	case *types.Array:
		return hasRefType(u.Elem(), depth+1)
	}
	return true
}

func (e *Enc) callOrdinal(short string) int {
	n := e.callOrd[short]
	e.callOrd[short] = n + 1
	return n
}

// execCall handles Call, and (via v==nil) deferred / go calls.
func (e *Enc) execCall(v ssa.Value, c *ssa.CallCommon, in ssa.Instruction, guard Term) {
	if b, ok := c.Value.(*ssa.Builtin); ok && !c.IsInvoke() {
		e.execBuiltin(v, b, c, in)
		return
	}
	key, short, sig, sfn := calleeName(c)
	op, isLock := isLockKey(key)
	if !isLock {
		if lfc := e.W.C.Funcs[normalizeFnKey(key)]; lfc != nil && lfc.Opts["lockop"] != "" {
			op, isLock = lfc.Opts["lockop"], true
		}
	}
	if ok := isLock; ok {
		var largs []Val
		var ltypes []types.Type
		if c.IsInvoke() {
			largs, ltypes = append(largs, e.val(c.Value)), append(ltypes, c.Value.Type())
		}
		for _, a := range c.Args {
			largs, ltypes = append(largs, e.val(a)), append(ltypes, a.Type())
		}
		e.atArgTypes = ltypes
		e.applyAtsIn(in, "before call", short, in.Pos(), largs, nil)
		if e.execLockOp(op, c, in) {
			if v != nil {
				e.vals[v] = Val{}
			}
			e.atArgTypes = ltypes
			e.applyAtsIn(in, "call", short, in.Pos(), largs, nil)
			e.atArgTypes = nil
			return
		}
		e.atArgTypes = nil
		e.beforeDone = true
	}
	ord := e.siteOrdinal(in, "call", short)
	site := fmt.Sprintf("%s#%d", short, ord)
	var args []Val
	var argTypes []types.Type
	if !c.IsInvoke() && c.StaticCallee() == nil {
		if _, isClosure := c.Value.(*ssa.MakeClosure); !isClosure {
			// a call through a function value (variable, field, parameter): nil function values panic
			e.oblige("nil", e.ordName("nil"), tNot(tEq(e.val(c.Value).T, "0")), in.Pos(), "call of a nil function value: "+site)
		}
	}
	if c.IsInvoke() {
		args = append(args, e.val(c.Value))
		argTypes = append(argTypes, c.Value.Type())
		if !isTypeParam(c.Value.Type()) {
			// (a value of type-parameter type is not an interface: the call itself cannot nil-panic)
			e.oblige("nil", e.ordName("nil"), tNot(tEq(sx("i-typ", e.val(c.Value).T), "0")), in.Pos(), "method call on nil interface: "+site)
		}
	}
	for _, a := range c.Args {
		args = append(args, e.val(a))
		argTypes = append(argTypes, a.Type())
	}
	// closure bindings
	var bindings []ssa.Value
	if mc, ok := c.Value.(*ssa.MakeClosure); ok {
		bindings = mc.Bindings
	}
	var fc *FuncContract
	if c.IsInvoke() {
		// the static receiver type's own contract (e.g. hash.Hash.Write) wins over the declaring interface's
		fc = e.W.C.Funcs[normalizeFnKey("("+types.TypeString(c.Value.Type(), nil)+")."+c.Method.Name())]
	}
	if fc == nil {
		fc = e.W.C.Funcs[normalizeFnKey(key)]
	}
	e.atArgTypes = argTypes
	e.atResTypes = nil
	if sig != nil {
		for i := 0; i < sig.Results().Len(); i++ {
			e.atResTypes = append(e.atResTypes, sig.Results().At(i).Type())
		}
	}
	if !e.beforeDone {
		e.applyAtsIn(in, "before call", short, in.Pos(), args, nil)
	}
	e.beforeDone = false
	var results []Val
	if fc != nil {
		results = e.applyContract(fc, key, site, sig, sfn, c, args, argTypes, bindings, in)
	} else if g := e.inlineTarget(c); g != nil && v != nil {
		results = e.inlineCall(g, args, in)
	} else {
		results = e.unknownCall(key, site, sig, c, args, argTypes, in)
	}
	if v != nil {
		switch len(results) {
		case 0:
			e.vals[v] = Val{}
		case 1:
			e.vals[v] = results[0]
		default:
			e.vals[v] = Val{Tup: results}
		}
	}
	if sig != nil {
		rn := resultNames(fc, sig)
		for i, r := range results {
			if i < len(rn) {
				t := sig.Results().At(i).Type()
				e.callLog[fmt.Sprintf("call_%s_%d_%s", short, ord, rn[i])] = SV{T: r.T, Sort: e.sortOf(t), GT: t}
			}
		}
	}
	e.atArgTypes = argTypes
	e.applyAtsIn(in, "call", short, in.Pos(), args, results)
	e.atArgTypes, e.atResTypes = nil, nil
}

func (e *Enc) freshResults(sig *types.Signature, hint string) []Val {
	var out []Val
	if sig == nil {
		return nil
	}
	for i := 0; i < sig.Results().Len(); i++ {
		t := sig.Results().At(i).Type()
		c := e.fresh(fmt.Sprintf("r%d_%s", i, hint), e.sortOf(t))
		e.assume(e.typeFacts(c, t, e.cur))
		out = append(out, Val{T: c})
	}
	return out
}

func (e *Enc) unknownCall(key, site string, sig *types.Signature, c *ssa.CallCommon, args []Val, argTypes []types.Type, in ssa.Instruction) []Val {
	pure := true
	for _, t := range argTypes {
		if hasRefType(t, 0) && !isString(t) {
			pure = false
		}
	}
	if key == "" {
		pure = false
	}
	// functions of this module without contracts may touch package state
	if f := c.StaticCallee(); f != nil && f.Pkg != nil && strings.HasPrefix(f.Pkg.Pkg.Path(), e.W.modulePath) {
		pure = false
	}
	if pure {
		e.used["no contract for "+key+": assumed to have no effect on the caller's heap (takes no references)"] = true
		e.bumpAlloc()
	} else {
		e.used["no contract for "+keyOr(key, site)+": results and all reachable state havocked"] = true
		if e.fc != nil && e.fc.HasModifies {
			e.oblige("frame", e.ordName("frame:call"), tFalse, in.Pos(), "call without frame contract: "+keyOr(key, site))
		}
		_, isClosure := c.Value.(*ssa.MakeClosure)
		e.havocAllExcept(!isClosure)
	}
	return e.freshResults(sig, site)
}

func keyOr(a, b string) string {
	if a != "" {
		return a
	}
	return b
}

// calleeEnv builds the spec environment for a callee contract at a call site.
func (e *Enc) calleeEnv(fc *FuncContract, sig *types.Signature, sfn *ssa.Function, c *ssa.CallCommon, args []Val, argTypes []types.Type, bindings []ssa.Value) *specEnv {
	env := &specEnv{e: e, cur: e.cur, old: e.cur, vars: map[string]SV{}, ptrVars: map[string]ptrVar{}, noLocals: true, isCallee: true}
	// package for name resolution
	if sfn != nil && sfn.Pkg != nil {
		env.pkg = sfn.Pkg.Pkg
	} else if sfn != nil && sfn.Origin() != nil && sfn.Origin().Pkg != nil {
		env.pkg = sfn.Origin().Pkg.Pkg
	} else if c != nil && c.IsInvoke() && c.Method.Pkg() != nil {
		env.pkg = c.Method.Pkg()
	} else if sfn != nil && sfn.Parent() != nil && sfn.Parent().Pkg != nil {
		env.pkg = sfn.Parent().Pkg.Pkg
	}
	var names []string
	if sig.Recv() != nil {
		n := sig.Recv().Name()
		if n == "" || n == "_" {
			n = "recv"
		}
		names = append(names, n)
	}
	for i := 0; i < sig.Params().Len(); i++ {
		n := sig.Params().At(i).Name()
		if n == "" || n == "_" {
			n = fmt.Sprintf("arg%d", i)
		}
		names = append(names, n)
	}
	if len(fc.Params) > 0 {
		for i := range names {
			if i < len(fc.Params) {
				names[i] = fc.Params[i]
			}
		}
	}
	// interface invoke: receiver is args[0] but sig.Recv() describes it too
	off := 0
	if len(args) == len(names)+1 {
		// receiver not part of names (e.g. method value); call it recv
		env.vars["recv"] = SV{T: args[0].T, Sort: e.sortOf(argTypes[0]), GT: argTypes[0]}
		off = 1
	}
	for i, n := range names {
		if i+off < len(args) {
			env.vars[n] = SV{T: args[i+off].T, Sort: e.sortOf(argTypes[i+off]), GT: argTypes[i+off]}
		}
	}
	if sfn != nil {
		for i, fv := range sfn.FreeVars {
			if i < len(bindings) {
				if pt, ok := fv.Type().Underlying().(*types.Pointer); ok {
					env.ptrVars[fv.Name()] = ptrVar{Ref: e.val(bindings[i]).T, Elem: pt.Elem()}
				}
			}
		}
	}
	return env
}

func resultNames(fc *FuncContract, sig *types.Signature) []string {
	var names []string
	for i := 0; i < sig.Results().Len(); i++ {
		n := sig.Results().At(i).Name()
		if n == "" || n == "_" {
			if i == 0 {
				n = "result"
			} else {
				n = fmt.Sprintf("result%d", i)
			}
		}
		names = append(names, n)
	}
	if fc != nil {
		for i := range names {
			if i < len(fc.Results) {
				names[i] = fc.Results[i]
			}
		}
	}
	return names
}

func (e *Enc) applyContract(fc *FuncContract, key, site string, sig *types.Signature, sfn *ssa.Function, c *ssa.CallCommon, args []Val, argTypes []types.Type, bindings []ssa.Value, in ssa.Instruction) []Val {
	if fc.Trusted {
		e.used["assumed contract: "+fc.Key] = true
	}
	if fc.Skip {
		e.used["assumed contract of an in-repo function whose body is outside the subset (not verified): "+fc.Key] = true
	}
	env := e.calleeEnv(fc, sig, sfn, c, args, argTypes, bindings)
	if fc.Opts["locks"] != "caller" && fc.Opts["locks"] != "release" {
		e.calleeLockObligations(sfn, args, in.Pos())
	}
	requires, ensures := fc.Requires, fc.Ensures
	crossMode := (fc.Mode == "bv") != e.bv
	if fc.Mode == "bv" && !e.bv {
		// caller and callee use different integer modes: only the int-view clauses can be evaluated here
		requires, ensures = fc.IntRequires, fc.IntEnsures
		e.used["integer-mode bridge: int-view contract of "+fc.Key+" is assumed to be the image of its bit-vector contract"] = true
	}
	for i, cl := range requires {
		o := e.oblige("pre", fmt.Sprintf("pre:%s.%d", site, i), env.evalBool(cl.Expr), in.Pos(), cl.Src)
		o.setLabel(cl.Label)
	}
	for i, cl := range fc.Panics {
		// callee documents a panic: the caller must not trigger it
		e.oblige("pre", fmt.Sprintf("nopanic:%s.%d", site, i), tNot(env.evalBool(cl.Expr)), in.Pos(), "callee panics when "+cl.Src)
	}
	if fc.NoReturn {
		e.oblige("panic", e.ordName("panic:call"), e.documentedPanic(), in.Pos(), "call to "+key+" never returns (panics)")
		e.assume(tFalse)
	}
	pre := e.cur
	e.cur = pre.clone()
	if !fc.HasModifies {
		e.used["contract of "+fc.Key+" has no modifies clause: caller-visible state havocked"] = true
		if e.fc != nil && e.fc.HasModifies {
			e.oblige("frame", e.ordName("frame:call"), tFalse, in.Pos(), "callee without modifies clause: "+key)
		}
		e.havocAll()
	} else {
		var items []frameItem
		for _, cl := range fc.Modifies {
			items = append(items, env.lvalue(cl.Expr)...)
		}
		e.frameCheckItems(items, in.Pos(), "call")
		e.applyItems(items)
		if !fc.Pure {
			e.bumpAlloc()
		}
	}
	results := e.freshResults(sig, site)
	penv := *env
	penv.cur, penv.old = e.cur, pre
	penv.vars = map[string]SV{}
	for k, v := range env.vars {
		penv.vars[k] = v
	}
	for i, n := range resultNames(fc, sig) {
		t := sig.Results().At(i).Type()
		sv := SV{T: results[i].T, Sort: e.sortOf(t), GT: t}
		penv.vars[n] = sv
		// positional names are always available: result (first), result1, result2, …
		if i == 0 {
			if _, taken := penv.vars["result"]; !taken {
				penv.vars["result"] = sv
			}
		} else if _, taken := penv.vars[fmt.Sprintf("result%d", i)]; !taken {
			penv.vars[fmt.Sprintf("result%d", i)] = sv
		}
	}
	for _, cl := range ensures {
		penv.calleeGhosts = fc.Ghosts
		penv.calleeLabels = nil
		for _, a := range fc.Ats {
			if a.Kind == "label" {
				penv.calleeLabels = append(penv.calleeLabels, a.Target)
			}
		}
		t, ok := penv.tryEvalBool(cl.Expr, crossMode)
		if !ok && crossMode {
			e.used["postcondition of "+fc.Key+" could not be evaluated in bit-vector mode and is not used: "+cl.Src] = true
			continue
		}
		if !ok {
			// the clause mentions state private to the callee (its function-level ghosts): callers learn nothing from it
			e.used["postcondition of "+fc.Key+" not visible to callers (mentions callee-local ghosts): "+cl.Src] = true
			continue
		}
		e.assume(t)
	}
	return results
}

// ---------- at-anchors ----------

func (e *Enc) applyAts(kind, name string, pos token.Pos, args []Val, results []Val) {
	e.applyAtsIn(nil, kind, name, pos, args, results)
}

func (e *Enc) applyAtsIn(in ssa.Instruction, kind, name string, pos token.Pos, args []Val, results []Val) {
	if e.fc == nil || len(e.fc.Ats) == 0 {
		return
	}
	base := strings.TrimPrefix(kind, "before ")
	ord := -1
	if in == nil {
		in = e.curInstr
	}
	if in != nil {
		ord = e.siteOrdinal(in, base, name)
	}
	anchor2 := strings.TrimSpace(fmt.Sprintf("%s %s", kind, name)) // every occurrence
	anchor1 := fmt.Sprintf("%s#%d", anchor2, ord)
	// package-qualified form: "call hmac.New#0"
	anchor3, anchor4 := "", ""
	if base == "call" && in != nil {
		var c *ssa.CallCommon
		switch ci := in.(type) {
		case *ssa.Call:
			c = ci.Common()
		case *ssa.Defer:
			c = ci.Common()
		}
		if c != nil && !c.IsInvoke() {
			if f := c.StaticCallee(); f != nil && f.Pkg != nil && f.Signature.Recv() == nil {
				anchor4 = fmt.Sprintf("%s %s.%s", kind, f.Pkg.Pkg.Name(), f.Name())
				if q, ok := e.siteOrdQ[in]; ok {
					anchor3 = fmt.Sprintf("%s#%d", anchor4, q)
				}
			}
		}
	}
	// channel-qualified form: "send respCh#0", "before recv closeCh" (every occurrence)
	anchor5, anchor6 := "", ""
	if (base == "send" || base == "recv") && in != nil {
		if cn := chanOperandName(in); cn != "" {
			pre := ""
			if strings.HasPrefix(kind, "before ") {
				pre = "before "
			}
			anchor5 = pre + cn
			if q, ok := e.siteOrdF[in]; ok {
				anchor6 = fmt.Sprintf("%s#%d", anchor5, q)
			}
		}
	}
	for ai, at := range e.fc.Ats {
		if at.Anchor != anchor1 && at.Anchor != anchor2 && (anchor3 == "" || at.Anchor != anchor3) && (anchor4 == "" || at.Anchor != anchor4) && (anchor5 == "" || at.Anchor != anchor5) && (anchor6 == "" || at.Anchor != anchor6) {
			continue
		}
		e.atHit[ai] = true
		env := e.newSpecEnv(e.cur, e.init)
		env.atBlock = e.curBlock
		if e.inlineHome != nil {
			env.atBlock = e.inlineHome
		}
		env.atInstr = true
		for i, a := range args {
			sv := SV{T: a.T, Sort: e.declOfTerm(a.T)}
			if i < len(e.atArgTypes) {
				sv.GT = e.atArgTypes[i]
				sv.Sort = e.sortOf(sv.GT)
			}
			env.vars[fmt.Sprintf("arg%d", i)] = sv
		}
		for i, r := range results {
			sv := SV{T: r.T, Sort: e.declOfTerm(r.T)}
			if i < len(e.atResTypes) {
				sv.GT = e.atResTypes[i]
				sv.Sort = e.sortOf(sv.GT)
			}
			env.vars[fmt.Sprintf("res%d", i)] = sv
		}
		for k, v := range e.atVars {
			env.vars[k] = v
		}
		switch at.Kind {
		case "label":
			e.labels[at.Target] = e.cur.clone()
		case "assert":
			o := e.oblige("assert", fmt.Sprintf("at:%s.%d", at.Anchor, ai), env.evalBool(at.Clause.Expr), pos, at.Clause.Src)
			o.setLabel(at.Clause.Label)
		case "assume":
			e.used[fmt.Sprintf("assume at %s: %s", at.Anchor, at.Clause.Src)] = true
			e.assume(env.evalBool(at.Clause.Expr))
		case "ghost":
			v := env.eval(at.Clause.Expr)
			e.ghostAssign(env, at.TExpr, v)
		}
	}
}

func (e *Enc) declOfTerm(t Term) string {
	if s, ok := e.declOf[t]; ok {
		return s
	}
	return "Int"
}

func (e *Enc) ghostAssign(env *specEnv, target SExpr, v SV) {
	items := env.lvalue(target)
	if len(items) != 1 {
		env.fail("ghost assignment target must be a single location")
	}
	it := items[0]
	if v.Nil {
		srt := it.HeapSort
		if it.Key != "" {
			_, srt = splitArraySort(it.HeapSort)
		}
		v = env.nilOf(SV{Sort: srt})
	}
	if !strings.HasPrefix(it.Heap, "$g") && !strings.HasPrefix(it.Heap, "GF$") && !strings.HasPrefix(it.Heap, "GI$") {
		env.fail("ghost assignment to non-ghost state %s", it.Heap)
	}
	if it.Key == "" {
		e.hset(e.cur, it.Heap, it.HeapSort, v.T)
		return
	}
	H := e.hget(e.cur, it.Heap, it.HeapSort)
	e.hset(e.cur, it.Heap, it.HeapSort, tStore(H, it.Key, v.T))
}

// ---------- return / panic ----------

func (e *Enc) documentedPanic() Term {
	if e.fc == nil || len(e.fc.Panics) == 0 {
		return tFalse
	}
	env := e.newSpecEnv(e.init, e.init)
	env.noLocals = true
	var cs []Term
	for _, cl := range e.fc.Panics {
		cs = append(cs, env.evalBool(cl.Expr))
	}
	return tOr(cs...)
}

func (e *Enc) execPanic(in *ssa.Panic) {
	e.oblige("panic", e.ordName("panic"), e.documentedPanic(), in.Pos(), "explicit panic reachable")
}

func (e *Enc) execReturn(in *ssa.Return) {
	ord := e.siteOrdinal(in, "return", "")
	e.retPoints = append(e.retPoints, retPoint{reach: e.curReach, nAsm: len(e.asm)})
	e.locksAtReturn(in)
	if e.fc == nil {
		return
	}
	{
		sig := e.fn.Signature
		e.atVars = map[string]SV{}
		for i, n := range resultNames(nil, sig) {
			t := sig.Results().At(i).Type()
			sv := SV{T: e.val(in.Results[i]).T, Sort: e.sortOf(t), GT: t}
			e.atVars[n] = sv
			if i == 0 {
				e.atVars["result"] = sv
			}
		}
		e.applyAts("return", "", in.Pos(), nil, nil)
		e.atVars = nil
	}
	env := e.newSpecEnv(e.cur, e.init)
	env.noLocals = true
	sig := e.fn.Signature
	names := resultNames(nil, sig)
	for i, n := range names {
		t := sig.Results().At(i).Type()
		env.vars[n] = SV{T: e.val(in.Results[i]).T, Sort: e.sortOf(t), GT: t}
		if i == 0 {
			env.vars["result"] = env.vars[n]
		}
		env.vars[fmt.Sprintf("result%d", i)] = env.vars[n]
	}
	// function ghosts stay visible in postconditions
	env.noLocals = false
	env.onlyGhostLocals = true
	for i, cl := range e.fc.Ensures {
		name := fmt.Sprintf("post:%d@ret%d", i, ord)
		if cl.Label != "" {
			name = fmt.Sprintf("post:%s@ret%d", cl.Label, ord)
		}
		o := e.oblige("post", name, env.evalBool(cl.Expr), in.Pos(), cl.Src)
		o.setMeta(cl.Label, token.Position{Filename: cl.File, Line: cl.Line})
	}
	// behavioural subtyping, postcondition side: what callers assume of the interface method holds of this method
	for _, lc := range e.refinedSpecs() {
		renv := e.refineEnv(lc, e.cur, e.init)
		rn := resultNames(lc, sig)
		for i := range rn {
			if i < len(in.Results) {
				t := sig.Results().At(i).Type()
				sv := SV{T: e.val(in.Results[i]).T, Sort: e.sortOf(t), GT: t}
				renv.vars[rn[i]] = sv
				if i == 0 {
					renv.vars["result"] = sv
				}
				renv.vars[fmt.Sprintf("result%d", i)] = sv
			}
		}
		for i, cl := range lc.Ensures {
			o := e.oblige("refine", fmt.Sprintf("refine:post:%s.%d@ret%d", lc.Key, i, ord), renv.evalBool(cl.Expr), in.Pos(), "libspec clause of "+lc.Key+": "+cl.Src)
			o.setMeta(cl.Label, token.Position{Filename: cl.File, Line: cl.Line})
		}
	}
	e.returns++
}

// refineEnv: the spec environment in which a clause of the interface-method libspec lc is evaluated for the method
// under verification: lc's parameter names bound positionally (receiver first; a non-interface receiver is boxed, so
// that interface ghosts such as a.overhead denote those of the interface value holding it).
func (e *Enc) refineEnv(lc *FuncContract, cur, old *State) *specEnv {
	env := &specEnv{e: e, cur: cur, old: old, vars: map[string]SV{}, ptrVars: map[string]ptrVar{}, noLocals: true, isCallee: true}
	if e.fn.Pkg != nil {
		env.pkg = e.fn.Pkg.Pkg
	}
	lparams := lc.Params
	if strings.HasPrefix(lc.Key, "functype ") {
		// a function type: parameter names are those of the type's signature (overridden by a params clause)
		if nt := e.W.lookupType(strings.TrimPrefix(lc.Key, "functype ")); nt != nil {
			if fsig, ok := nt.Underlying().(*types.Signature); ok {
				var names []string
				for i := 0; i < fsig.Params().Len(); i++ {
					n := fsig.Params().At(i).Name()
					if n == "" || n == "_" {
						n = fmt.Sprintf("arg%d", i)
					}
					names = append(names, n)
				}
				for i := range names {
					if i < len(lc.Params) {
						names[i] = lc.Params[i]
					}
				}
				lparams = names
			}
		}
	}
	// free variables of a closure come first in fn.Params? No: ssa keeps them in FreeVars; Params are the declared ones.
	isFT := strings.HasPrefix(lc.Key, "functype ")
	off := 0
	if isFT && e.fn.Signature.Recv() != nil {
		// a method refining a function type (its bound-method value inhabits the type): the receiver is not a parameter
		off = 1
	}
	for j, p := range e.fn.Params {
		i := j - off
		if i < 0 {
			continue
		}
		if i >= len(lparams) {
			break
		}
		t := p.Type()
		sv := SV{T: e.vals[p].T, Sort: e.sortOf(t), GT: t}
		if !isFT && i == 0 && e.fn.Signature.Recv() != nil {
			if _, isIface := t.Underlying().(*types.Interface); !isIface {
				sv = SV{T: sx("mk-iface", tInt(int64(e.W.typeID(t))), e.vals[p].T), Sort: "Iface", GT: types.NewInterfaceType(nil, nil)}
			}
		}
		env.vars[lparams[i]] = sv
	}
	return env
}

// refineFrames: behavioural subtyping, frame side. Every write of this function is checked against its own modifies
// clause; here that clause is shown to lie within the modifies clause of each contract it refines (evaluated over
// the entry state with the refined contract's parameter names bound positionally).
func (e *Enc) refineFrames() {
	if e.fc == nil {
		return
	}
	for _, lc := range e.refinedSpecs() {
		if !lc.HasModifies || !strings.HasPrefix(lc.Key, "functype ") {
			// interface-method libspecs state their frames over capacities (dst[len(dst):cap(dst)]) while the
			// methods state the range they write if capacity allows: containment needs the append rule, which
			// the per-write frame obligations of the method apply; only function types are compared here
			continue
		}
		saved := e.curReach
		e.curReach = tTrue
		if !e.fc.HasModifies {
			e.oblige("refine", "refine:frame:"+lc.Key, tFalse, token.NoPos, "this function refines "+lc.Key+", which has a modifies clause, but has none itself")
			e.curReach = saved
			continue
		}
		renv := e.refineEnv(lc, e.init, e.init)
		var ritems []frameItem
		for _, cl := range lc.Modifies {
			ritems = append(ritems, renv.lvalue(cl.Expr)...)
		}
		for i, m := range e.myModItems() {
			var alts []Term
			if m.Lo != "" {
				alts = append(alts, tLe(m.Hi, m.Lo))
			}
			for _, r := range ritems {
				if r.Heap != m.Heap {
					continue
				}
				if r.Key == "" {
					alts = append(alts, tTrue)
					continue
				}
				if m.Key == "" {
					continue
				}
				c := tEq(r.Key, m.Key)
				if r.Lo != "" {
					if m.Lo == "" {
						continue
					}
					c = tAnd(c, tLe(r.Lo, m.Lo), tLe(m.Hi, r.Hi))
				}
				alts = append(alts, c)
			}
			e.oblige("refine", fmt.Sprintf("refine:frame:%s/%d", lc.Key, i), tImp(e.preCond, tOr(alts...)), token.NoPos, "modifies item "+m.Heap+" "+m.Src+" lies within the modifies clause of "+lc.Key)
		}
		e.curReach = saved
	}
}

func (e *Enc) refinedSpecs() []*FuncContract {
	var out []*FuncContract
	if e.fc == nil {
		return nil
	}
	for _, k := range e.fc.Refines {
		lc := e.W.C.Funcs[normalizeFnKey(k)]
		if lc == nil {
			e.curReach = tTrue
			e.oblige("refine", "refine:missing:"+k, tFalse, token.NoPos, "no libspec "+k+" to refine")
			continue
		}
		out = append(out, lc)
	}
	return out
}

// entrySpecs assumes the preconditions.
func (e *Enc) entrySpecs() {
	if e.fc == nil {
		return
	}
	env := e.newSpecEnv(e.init, e.init)
	env.noLocals = true
	var pres []Term
	for _, cl := range e.fc.Requires {
		pres = append(pres, env.evalBool(cl.Expr))
	}
	// behavioural subtyping, precondition side: whenever a caller respects the interface method's libspec (its
	// requires hold and none of its documented panics is triggered) this method's own preconditions hold
	for _, lc := range e.refinedSpecs() {
		renv := e.refineEnv(lc, e.init, e.init)
		var hyp []Term
		for _, cl := range lc.Requires {
			hyp = append(hyp, renv.evalBool(cl.Expr))
		}
		for _, cl := range lc.Panics {
			hyp = append(hyp, tNot(renv.evalBool(cl.Expr)))
		}
		e.curReach = tTrue
		e.oblige("refine", "refine:pre:"+lc.Key, tImp(tAnd(hyp...), tAnd(pres...)), token.NoPos, "preconditions of this method follow from those of "+lc.Key)
	}
	for _, t := range pres {
		e.assumeG(t)
	}
	e.preCond = tAnd(pres...)
	e.refineFrames()
}

// ---------- defer / go / select ----------

func (e *Enc) execDefer(in *ssa.Defer) {
	k := len(e.defers)
	e.defers = append(e.defers, in)
	flag := fmt.Sprintf("$defer%d", k)
	e.heapDecl(flag, "Bool")
	e.hset(e.cur, flag, "Bool", tTrue)
	if e.deferIdx == nil {
		e.deferIdx = map[*ssa.Defer]int{}
	}
	e.deferIdx[in] = k
}

func (e *Enc) execRunDefers(in *ssa.RunDefers) {
	for k := len(e.defers) - 1; k >= 0; k-- {
		d := e.defers[k]
		flag := fmt.Sprintf("$defer%d", k)
		g := e.hget(e.cur, flag, "Bool")
		if g == smtName(flag+"@0") {
			continue // never registered on any path reaching here
		}
		before := e.cur
		saved := e.curReach
		e.curReach = tAnd(saved, g)
		e.cur = before.clone()
		e.execCall(nil, d.Common(), d, g)
		after := e.cur
		e.curReach = saved
		if g == tTrue {
			e.cur = after
		} else {
			e.cur = e.mergeStates([]*State{after, before}, []Term{g, tNot(g)})
		}
	}
}

func (e *Enc) execGo(in *ssa.Go) {
	// the spawned function starts in the current state, so its preconditions are obligations here; it then runs
	// concurrently: its postconditions are not assumed, and what it can reach is havocked unless it has a contract with
	// a modifies clause. A function with a frame (modifies clause) may only spawn functions whose own frame lies within it.
	c := in.Common()
	key, short, sig, sfn := calleeName(c)
	var args []Val
	var argTypes []types.Type
	if c.IsInvoke() {
		args, argTypes = append(args, e.val(c.Value)), append(argTypes, c.Value.Type())
	}
	for _, a := range c.Args {
		args, argTypes = append(args, e.val(a)), append(argTypes, a.Type())
	}
	e.atArgTypes = argTypes
	e.applyAts("before go", "", in.Pos(), args, nil)
	e.atArgTypes = nil
	fc := e.W.C.Funcs[normalizeFnKey(key)]
	var bindings []ssa.Value
	if mc, ok := c.Value.(*ssa.MakeClosure); ok {
		bindings = mc.Bindings
	}
	site := fmt.Sprintf("go %s#%d", short, e.siteOrdinal(in, "go", ""))
	var env *specEnv
	if fc != nil && sig != nil {
		env = e.calleeEnv(fc, sig, sfn, c, args, argTypes, bindings)
		reqs := fc.Requires
		if fc.Mode == "bv" && !e.bv {
			reqs = fc.IntRequires
		}
		for i, cl := range reqs {
			o := e.oblige("pre", fmt.Sprintf("pre:%s.%d", site, i), env.evalBool(cl.Expr), in.Pos(), cl.Src)
			o.setLabel(cl.Label)
		}
	}
	callerFramed := e.fc != nil && e.fc.HasModifies
	switch {
	case fc != nil && fc.Opts["go"] == "detached":
		// declared on the spawned function: a long-running goroutine (runs user callbacks, serves a queue ...) whose
		// effects are not bounded by the frame of whoever starts it
		e.used["go "+key+": detached goroutine, its effects are not bounded by the spawning function's frame (opt go=detached)"] = true
	case fc != nil && fc.HasModifies:
		if callerFramed && env != nil {
			var items []frameItem
			for _, cl := range fc.Modifies {
				for _, it := range env.lvalue(cl.Expr) {
					// lock-protected fields and ghost state are governed by the monitor rule / are not program memory
					if e.isLockProtectedHeap(it.Heap) || strings.HasPrefix(it.Heap, "GF$") || strings.HasPrefix(it.Heap, "GI$") || strings.HasPrefix(it.Heap, "$g") {
						continue
					}
					items = append(items, it)
				}
			}
			e.frameCheckItems(items, in.Pos(), "go")
		}
	case callerFramed:
		e.oblige("frame", e.ordName("frame:go"), tFalse, in.Pos(), "spawned function without a modifies clause may write anything: "+key)
	}
	if fc != nil && fc.HasModifies && fc.Opts["go"] == "frame-only" {
		e.used["go "+key+": concurrent effect limited to its modifies clause (contract)"] = true
	} else if e.fc != nil && e.fc.Opts["go"] == "ignore" {
		e.used["go statements: effects of spawned goroutines on shared state not modelled in "+e.fn.String()] = true
	} else {
		e.havocAll()
	}
	e.atArgTypes = argTypes
	e.applyAts("go", "", in.Pos(), args, nil)
	e.atArgTypes = nil
}

// isLockProtectedHeap: the heap is a struct field that some lock declaration of the repository protects.
func (e *Enc) isLockProtectedHeap(heap string) bool {
	if !strings.HasPrefix(heap, "F$") {
		return false
	}
	for tkey, tc := range e.W.C.Types {
		for _, l := range tc.Locks {
			for _, p := range l.Protects {
				if strings.Contains(p, ".") {
					// Type.field of another type in the same package
					i := strings.LastIndex(tkey, ".")
					if i > 0 && heap == "F$"+tkey[:i+1]+p {
						return true
					}
				} else if heap == "F$"+tkey+"."+p {
					return true
				}
			}
		}
	}
	return false
}

func (e *Enc) execSelect(in *ssa.Select) {
	// nondeterministic choice; received values unconstrained
	var tup []Val
	idx := e.fresh("select_idx", "Int")
	n := len(in.States)
	lo := "0"
	if !in.Blocking {
		lo = "(- 1)"
	}
	e.assume(tAnd(tLe(lo, idx), tLt(idx, tInt(int64(n)))))
	tup = append(tup, Val{T: idx})
	tup = append(tup, Val{T: e.fresh("select_ok", "Bool")})
	for i, st := range in.States {
		if st.Dir == types.RecvOnly {
			et := st.Chan.Type().Underlying().(*types.Chan).Elem()
			c := e.fresh("select_recv", e.sortOf(et))
			e.assume(e.typeFacts(c, et, e.cur))
			// message-passing rule for `sent` clauses: only the value of the chosen case was received
			saved := e.curReach
			e.curReach = tAnd(saved, tEq(idx, tInt(int64(i))))
			e.sentClauses(et, c, false, in.Pos())
			e.curReach = saved
			tup = append(tup, Val{T: c})
		} else if st.Send != nil {
			// a send case: if chosen, this value is sent
			saved := e.curReach
			e.curReach = tAnd(saved, tEq(idx, tInt(int64(i))))
			e.sentClauses(st.Send.Type(), e.val(st.Send).T, true, in.Pos())
			e.curReach = saved
		}
	}
	e.vals[in] = Val{Tup: tup}
	e.atResTypes = []types.Type{types.Typ[types.Int], types.Typ[types.Bool]}
	// arg<i>: the channel of case i (in source order); selchan / selsend: channel and direction of the chosen case
	var sargs []Val
	var stypes []types.Type
	chosen, chosenSend := Term("0"), Term("false")
	for i := len(in.States) - 1; i >= 0; i-- {
		st := in.States[i]
		ct := e.val(st.Chan).T
		// a case whose channel is nil is never chosen (Go spec: communication on a nil channel never proceeds)
		e.assume(tImp(tEq(idx, tInt(int64(i))), tNot(tEq(ct, "0"))))
		chosen = tIte(tEq(idx, tInt(int64(i))), ct, chosen)
		if st.Dir == types.SendOnly {
			chosenSend = tIte(tEq(idx, tInt(int64(i))), tTrue, chosenSend)
		} else {
			chosenSend = tIte(tEq(idx, tInt(int64(i))), tFalse, chosenSend)
		}
	}
	for _, st := range in.States {
		sargs = append(sargs, e.val(st.Chan))
		stypes = append(stypes, st.Chan.Type())
	}
	e.atArgTypes = stypes
	if e.atVars == nil {
		e.atVars = map[string]SV{}
	}
	e.atSelect = in
	e.atVars["selchan"] = SV{T: chosen, Sort: "Int"}
	e.atVars["selsend"] = SV{T: chosenSend, Sort: "Bool"}
	// selcases: number of communication cases; selblocking: the select has no default case
	e.atVars["selcases"] = SV{T: tInt(int64(len(in.States))), Sort: "Int"}
	if in.Blocking {
		e.atVars["selblocking"] = SV{T: tTrue, Sort: "Bool"}
	} else {
		e.atVars["selblocking"] = SV{T: tFalse, Sort: "Bool"}
	}
	// selsendval / selrecvval: the value offered by the chosen send case / received by the chosen receive case
	// (available when all send cases, resp. all receive cases, carry values of one sort)
	{
		var sendSort, recvSort string
		var sendGT, recvGT types.Type
		sendOK, recvOK := true, true
		var sendV, recvV Term
		ri := 2
		for i, st := range in.States {
			if st.Dir == types.RecvOnly {
				et := st.Chan.Type().Underlying().(*types.Chan).Elem()
				so := e.sortOf(et)
				if recvSort == "" {
					recvSort, recvGT, recvV = so, et, tup[ri].T
				} else if recvSort != so {
					recvOK = false
				} else {
					recvV = tIte(tEq(idx, tInt(int64(i))), tup[ri].T, recvV)
				}
				ri++
			} else if st.Send != nil {
				so := e.sortOf(st.Send.Type())
				if sendSort == "" {
					sendSort, sendGT, sendV = so, st.Send.Type(), e.val(st.Send).T
				} else if sendSort != so {
					sendOK = false
				} else {
					sendV = tIte(tEq(idx, tInt(int64(i))), e.val(st.Send).T, sendV)
				}
			}
		}
		if sendOK && sendSort != "" {
			e.atVars["selsendval"] = SV{T: sendV, Sort: sendSort, GT: sendGT}
		}
		if recvOK && recvSort != "" {
			e.atVars["selrecvval"] = SV{T: recvV, Sort: recvSort, GT: recvGT}
		}
	}
	e.applyAts("select", "", in.Pos(), sargs, tup[:2])
	e.atSelect = nil
	delete(e.atVars, "selsendval")
	delete(e.atVars, "selrecvval")
	delete(e.atVars, "selchan")
	delete(e.atVars, "selsend")
	delete(e.atVars, "selcases")
	delete(e.atVars, "selblocking")
	e.atArgTypes = nil
	e.atResTypes = nil
}

func (e *Enc) execRecv(in *ssa.UnOp) {
	ra := []Val{e.val(in.X)}
	e.atArgTypes = []types.Type{in.X.Type()}
	defer func() { e.atArgTypes = nil }()
	e.applyAts("before recv", "", in.Pos(), ra, nil)
	et := in.X.Type().Underlying().(*types.Chan).Elem()
	c := e.fresh("recv", e.sortOf(et))
	e.assume(e.typeFacts(c, et, e.cur))
	if in.CommaOk {
		e.vals[in] = Val{Tup: []Val{{T: c}, {T: e.fresh("recv_ok", "Bool")}}}
	} else {
		e.vals[in] = Val{T: c}
	}
	e.sentClauses(et, c, false, in.Pos())
	e.applyAts("recv", "", in.Pos(), ra, nil)
}

// ---------- builtins ----------

func (e *Enc) execBuiltin(v ssa.Value, b *ssa.Builtin, c *ssa.CallCommon, in ssa.Instruction) {
	arg := func(i int) Term { return e.val(c.Args[i]).T }
	set := func(t Term) {
		if v != nil {
			e.setVal(v, t)
		}
	}
	switch b.Name() {
	case "len":
		x := arg(0)
		switch u := c.Args[0].Type().Underlying().(type) {
		case *types.Slice:
			set(e.fromInt(sx("s-len", x), v.Type()))
		case *types.Basic:
			set(e.fromInt(sx("str-len", x), v.Type()))
		case *types.Map:
			set(e.fromInt(e.mapLen(e.cur, u, x), v.Type()))
		case *types.Array:
			set(e.fromInt(tInt(u.Len()), v.Type()))
		case *types.Pointer:
			set(e.fromInt(tInt(u.Elem().Underlying().(*types.Array).Len()), v.Type()))
		default:
			e.havocVal(v, "len")
			e.assume(tLe("0", e.val(v).T))
		}
	case "cap":
		x := arg(0)
		switch u := c.Args[0].Type().Underlying().(type) {
		case *types.Slice:
			set(e.fromInt(sx("s-cap", x), v.Type()))
		case *types.Array:
			set(e.fromInt(tInt(u.Len()), v.Type()))
		default:
			e.havocVal(v, "cap")
			e.assume(tLe("0", e.val(v).T))
		}
	case "append":
		e.execAppend(v, c, in)
	case "copy":
		e.execCopy(v, c, in)
	case "delete":
		mt := c.Args[0].Type().Underlying().(*types.Map)
		e.mapDelete(mt, arg(0), arg(1), in.Pos())
	case "min", "max":
		t := arg(0)
		for i := 1; i < len(c.Args); i++ {
			a := arg(i)
			if b.Name() == "min" {
				t = tIte(sx("<=", t, a), t, a)
			} else {
				t = tIte(sx(">=", t, a), t, a)
			}
		}
		if e.bv || !isInteger(v.Type()) {
			e.havocVal(v, "minmax")
		} else {
			set(t)
		}
	case "close":
		ca := []Val{e.val(c.Args[0])}
		e.atArgTypes = []types.Type{c.Args[0].Type()}
		e.applyAts("before close", "", in.Pos(), ca, nil)
		e.applyAts("close", "", in.Pos(), ca, nil)
		e.atArgTypes = nil
	case "print", "println":
	case "recover":
		if v != nil {
			e.havocVal(v, "recover")
		}
	case "ssa:wrapnilchk":
		if v != nil {
			e.vals[v] = e.val(c.Args[0])
		}
	case "clear":
		switch u := c.Args[0].Type().Underlying().(type) {
		case *types.Map:
			e.mapClear(u, arg(0))
		case *types.Slice:
			e.execClearSlice(u, arg(0), in)
		default:
			e.havocAll()
			e.unsupported("clear on " + c.Args[0].Type().String())
		}
	default:
		if v != nil {
			e.havocVal(v, "builtin")
		}
		e.unsupported("builtin " + b.Name())
	}
}

func (e *Enc) execAppend(v ssa.Value, c *ssa.CallCommon, in ssa.Instruction) {
	s := e.val(c.Args[0]).T
	st := c.Args[0].Type().Underlying().(*types.Slice)
	elem := st.Elem()
	es := e.sortOf(elem)
	hs := fmt.Sprintf("(Array Int (Array Int %s))", es)
	h := elemHeap(elem)
	H := e.hget(e.cur, h, hs)
	// source
	var n Term
	var srcAt func(j Term) Term // element j of the source
	if len(c.Args) < 2 {
		e.vals[v] = Val{T: s}
		return
	}
	t := e.val(c.Args[1]).T
	if isString(c.Args[1].Type()) {
		n = sx("str-len", t)
		srcAt = func(j Term) Term { return tSel(sx("str-data", t), j) }
	} else {
		n = sx("s-len", t)
		srcAt = func(j Term) Term { return tSel(tSel(H, sx("s-base", t)), tAdd(sx("s-off", t), j)) }
	}
	n = e.define("app_n", "Int", n)
	ln, cp, base, off := sx("s-len", s), sx("s-cap", s), sx("s-base", s), sx("s-off", s)
	inplace := e.define("app_inplace", "Bool", tLe(tAdd(ln, n), cp))
	// frame: the in-place branch writes the spare capacity of s
	if e.fc != nil && e.fc.HasModifies {
		it := frameItem{Heap: h, HeapSort: hs, Key: base, KeySort: "Int", Lo: tAdd(off, ln), Hi: tAdd(tAdd(off, ln), n)}
		e.oblige("frame", e.ordName("frame:append"), tImp(tAnd(inplace, tLt("0", n)), e.allowedWrite(it)), in.Pos(), "append writes into spare capacity of its first argument")
	}
	// in-place result
	a1 := e.fresh("app_arr1", fmt.Sprintf("(Array Int %s)", es))
	start := e.define("app_start", "Int", tAdd(off, ln))
	e.assume(fmt.Sprintf("(forall ((i!a Int)) (! (= (select %s i!a) (ite (and (<= %s i!a) (< i!a (+ %s %s))) %s (select (select %s %s) i!a))) :pattern ((select %s i!a))))",
		a1, start, start, n, srcAt(sx("-", "i!a", start)), H, base, a1))
	// reallocating result
	nb := e.fresh("app_newbase", "Int")
	e.assumeG(tEq(nb, e.alloc(e.cur)))
	a2 := e.fresh("app_arr2", fmt.Sprintf("(Array Int %s)", es))
	e.assume(fmt.Sprintf("(forall ((i!a Int)) (! (=> (and (<= 0 i!a) (< i!a (+ %s %s))) (= (select %s i!a) (ite (< i!a %s) (select (select %s %s) (+ %s i!a)) %s))) :pattern ((select %s i!a))))",
		ln, n, a2, ln, H, base, off, srcAt(sx("-", "i!a", ln)), a2))
	nc := e.fresh("app_newcap", "Int")
	e.assume(tAnd(tLe(tAdd(ln, n), nc), tLe(nc, maxLenBound), tLe(tAdd(ln, n), maxLenBound)))
	res := tIte(inplace, sx("mk-slice", base, off, tAdd(ln, n), cp), sx("mk-slice", nb, "0", tAdd(ln, n), nc))
	// append(nil, nothing) stays nil; in-place with base 0 only when n == 0
	e.hset(e.cur, h, hs, tIte(inplace, tIte(tEq(n, "0"), H, tStore(H, base, a1)), tStore(H, nb, a2)))
	e.hset(e.cur, "$alloc", "Int", tIte(inplace, e.alloc(e.cur), tAdd(nb, "1")))
	e.setVal(v, res)
}

func (e *Enc) execCopy(v ssa.Value, c *ssa.CallCommon, in ssa.Instruction) {
	d := e.val(c.Args[0]).T
	st := c.Args[0].Type().Underlying().(*types.Slice)
	elem := st.Elem()
	es := e.sortOf(elem)
	hs := fmt.Sprintf("(Array Int (Array Int %s))", es)
	h := elemHeap(elem)
	H := e.hget(e.cur, h, hs)
	t := e.val(c.Args[1]).T
	var sl Term
	var srcAt func(j Term) Term
	if isString(c.Args[1].Type()) {
		sl = sx("str-len", t)
		srcAt = func(j Term) Term { return tSel(sx("str-data", t), j) }
	} else {
		sl = sx("s-len", t)
		srcAt = func(j Term) Term { return tSel(tSel(H, sx("s-base", t)), tAdd(sx("s-off", t), j)) }
	}
	n := e.define("copy_n", "Int", tIte(tLe(sx("s-len", d), sl), sx("s-len", d), sl))
	base, off := sx("s-base", d), sx("s-off", d)
	if e.fc != nil && e.fc.HasModifies {
		it := frameItem{Heap: h, HeapSort: hs, Key: base, KeySort: "Int", Lo: off, Hi: tAdd(off, n)}
		e.oblige("frame", e.ordName("frame:copy"), e.allowedWrite(it), in.Pos(), "copy destination within modifies clause or fresh memory")
	}
	a := e.fresh("copy_arr", fmt.Sprintf("(Array Int %s)", es))
	offd := e.define("copy_off", "Int", off)
	e.assume(fmt.Sprintf("(forall ((i!c Int)) (! (= (select %s i!c) (ite (and (<= %s i!c) (< i!c (+ %s %s))) %s (select (select %s %s) i!c))) :pattern ((select %s i!c))))",
		a, offd, offd, n, srcAt(sx("-", "i!c", offd)), H, base, a))
	e.hset(e.cur, h, hs, tIte(tEq(n, "0"), H, tStore(H, base, a)))
	if v != nil {
		e.setVal(v, e.fromInt(n, v.Type()))
	}
}

// clear(s): every element of s[0:len(s)] becomes the zero value; a write like any other for the frame.
func (e *Enc) execClearSlice(st *types.Slice, d Term, in ssa.Instruction) {
	elem := st.Elem()
	es := e.sortOf(elem)
	hs := fmt.Sprintf("(Array Int (Array Int %s))", es)
	h := elemHeap(elem)
	H := e.hget(e.cur, h, hs)
	base, off, n := sx("s-base", d), sx("s-off", d), sx("s-len", d)
	if e.fc != nil && e.fc.HasModifies {
		it := frameItem{Heap: h, HeapSort: hs, Key: base, KeySort: "Int", Lo: off, Hi: tAdd(off, n)}
		e.oblige("frame", e.ordName("frame:clear"), e.allowedWrite(it), in.Pos(), "clear destination within modifies clause or fresh memory")
	}
	a := e.fresh("clear_arr", fmt.Sprintf("(Array Int %s)", es))
	offd := e.define("clear_off", "Int", off)
	e.assume(fmt.Sprintf("(forall ((i!c Int)) (! (= (select %s i!c) (ite (and (<= %s i!c) (< i!c (+ %s %s))) %s (select (select %s %s) i!c))) :pattern ((select %s i!c))))",
		a, offd, offd, n, e.zeroOf(elem), H, base, a))
	e.hset(e.cur, h, hs, tIte(tEq(n, "0"), H, tStore(H, base, a)))
}

// ---------- maps ----------

func (e *Enc) mapHeaps(mt *types.Map) [][2]string {
	k := typeKey(mt)
	ks, vs := e.sortOf(mt.Key()), e.sortOf(mt.Elem())
	return [][2]string{
		{"MV$" + k, fmt.Sprintf("(Array Int (Array %s %s))", ks, vs)},
		{"MH$" + k, fmt.Sprintf("(Array Int (Array %s Bool))", ks)},
		{"ML$" + k, "(Array Int Int)"},
	}
}

func (e *Enc) mapHas(s *State, mt *types.Map, m, k Term) Term {
	hs := e.mapHeaps(mt)
	return tAnd(tNot(tEq(m, "0")), tSel(tSel(e.hget(s, hs[1][0], hs[1][1]), m), k))
}

func (e *Enc) mapGet(s *State, mt *types.Map, m, k Term) Term {
	hs := e.mapHeaps(mt)
	return tIte(e.mapHas(s, mt, m, k), tSel(tSel(e.hget(s, hs[0][0], hs[0][1]), m), k), e.zeroOf(mt.Elem()))
}

func (e *Enc) mapLen(s *State, mt *types.Map, m Term) Term {
	hs := e.mapHeaps(mt)
	return tIte(tEq(m, "0"), "0", tSel(e.hget(s, hs[2][0], hs[2][1]), m))
}

func (e *Enc) execMakeMap(in *ssa.MakeMap) {
	mt := in.Type().Underlying().(*types.Map)
	r := e.newRef(e.cur, "map")
	hs := e.mapHeaps(mt)
	ks := e.sortOf(mt.Key())
	e.hset(e.cur, hs[1][0], hs[1][1], tStore(e.hget(e.cur, hs[1][0], hs[1][1]), r, fmt.Sprintf("((as const (Array %s Bool)) false)", ks)))
	e.hset(e.cur, hs[2][0], hs[2][1], tStore(e.hget(e.cur, hs[2][0], hs[2][1]), r, "0"))
	e.vals[in] = Val{T: r}
}

func (e *Enc) execLookup(in *ssa.Lookup) {
	x := e.val(in.X).T
	k := e.val(in.Index).T
	mt, ok := in.X.Type().Underlying().(*types.Map)
	if !ok {
		// string index
		i := e.toInt(k, in.Index.Type())
		e.oblige("idx", e.ordName("idx"), tAnd(tLe("0", i), tLt(i, sx("str-len", x))), in.Pos(), "string index in range")
		e.setVal(in, e.fromInt(tSel(sx("str-data", x), i), in.Type()))
		return
	}
	has := e.define("has_"+in.Name(), "Bool", e.mapHas(e.cur, mt, x, k))
	v := e.define("mv_"+in.Name(), e.sortOf(mt.Elem()), e.mapGet(e.cur, mt, x, k))
	e.assume(tImp(has, e.typeFacts(v, mt.Elem(), e.cur)))
	if in.CommaOk {
		e.vals[in] = Val{Tup: []Val{{T: v}, {T: has}}}
	} else {
		e.vals[in] = Val{T: v}
	}
}

func (e *Enc) mapFrame(mt *types.Map, m Term, pos token.Pos) {
	if e.fc == nil || !e.fc.HasModifies {
		return
	}
	var items []frameItem
	for _, h := range e.mapHeaps(mt) {
		items = append(items, frameItem{Heap: h[0], HeapSort: h[1], Key: m, KeySort: "Int"})
	}
	e.oblige("frame", e.ordName("frame:map"), e.allowedWrite(items[0]), pos, "map write within modifies clause or fresh memory")
}

func (e *Enc) execMapUpdate(in *ssa.MapUpdate) {
	mt := in.Map.Type().Underlying().(*types.Map)
	m, k, v := e.val(in.Map).T, e.val(in.Key).T, e.val(in.Value).T
	e.oblige("nil", e.ordName("nil"), tNot(tEq(m, "0")), in.Pos(), "assignment to entry in nil map")
	e.mapFrame(mt, m, in.Pos())
	e.applyAts("before mapupdate", "", in.Pos(), nil, nil)
	hs := e.mapHeaps(mt)
	has := e.define("had", "Bool", tSel(tSel(e.hget(e.cur, hs[1][0], hs[1][1]), m), k))
	MV, MH, ML := e.hget(e.cur, hs[0][0], hs[0][1]), e.hget(e.cur, hs[1][0], hs[1][1]), e.hget(e.cur, hs[2][0], hs[2][1])
	e.hset(e.cur, hs[0][0], hs[0][1], tStore(MV, m, tStore(tSel(MV, m), k, v)))
	e.hset(e.cur, hs[1][0], hs[1][1], tStore(MH, m, tStore(tSel(MH, m), k, tTrue)))
	e.hset(e.cur, hs[2][0], hs[2][1], tStore(ML, m, tIte(has, tSel(ML, m), tAdd(tSel(ML, m), "1"))))
	e.applyAts("mapupdate", "", in.Pos(), nil, nil)
}

func (e *Enc) mapDelete(mt *types.Map, m, k Term, pos token.Pos) {
	e.applyAts("before mapdelete", "", pos, nil, nil)
	hs := e.mapHeaps(mt)
	e.mapFrame(mt, m, pos)
	MH, ML := e.hget(e.cur, hs[1][0], hs[1][1]), e.hget(e.cur, hs[2][0], hs[2][1])
	has := e.define("had", "Bool", e.mapHas(e.cur, mt, m, k))
	e.hset(e.cur, hs[1][0], hs[1][1], tIte(tEq(m, "0"), MH, tStore(MH, m, tStore(tSel(MH, m), k, tFalse))))
	e.hset(e.cur, hs[2][0], hs[2][1], tIte(has, tStore(ML, m, tSub(tSel(ML, m), "1")), ML))
	e.applyAts("mapdelete", "", pos, nil, nil)
}

func (e *Enc) mapClear(mt *types.Map, m Term) {
	hs := e.mapHeaps(mt)
	ks := e.sortOf(mt.Key())
	MH, ML := e.hget(e.cur, hs[1][0], hs[1][1]), e.hget(e.cur, hs[2][0], hs[2][1])
	e.hset(e.cur, hs[1][0], hs[1][1], tIte(tEq(m, "0"), MH, tStore(MH, m, fmt.Sprintf("((as const (Array %s Bool)) false)", ks))))
	e.hset(e.cur, hs[2][0], hs[2][1], tIte(tEq(m, "0"), ML, tStore(ML, m, "0")))
}

// ---------- range / next ----------

func (e *Enc) execRange(in *ssa.Range) {
	e.vals[in] = Val{T: e.val(in.X).T}
	e.rangeOf[in] = in.X
	if mt, ok := in.X.Type().Underlying().(*types.Map); ok {
		// iteration state of a range over a map (Go spec, "For statements with range clause"): rangeseen<k>[key] = the
		// key was produced already, rangecount<k> = how many were; the map's key set at the start is remembered
		ord := e.mapRangeOrd(in)
		ks := e.sortOf(mt.Key())
		seenH, cntH, has0H := fmt.Sprintf("$g$rangeseen%d", ord), fmt.Sprintf("$g$rangecount%d", ord), fmt.Sprintf("$g$rangehas%d", ord)
		e.hset(e.cur, seenH, fmt.Sprintf("(Array %s Bool)", ks), fmt.Sprintf("((as const (Array %s Bool)) false)", ks))
		e.hset(e.cur, cntH, "Int", "0")
		hs := e.mapHeaps(mt)
		m := e.val(in.X).T
		e.hset(e.cur, has0H, fmt.Sprintf("(Array %s Bool)", ks), tIte(tEq(m, "0"), fmt.Sprintf("((as const (Array %s Bool)) false)", ks), tSel(e.hget(e.cur, hs[1][0], hs[1][1]), m)))
		e.hset(e.cur, fmt.Sprintf("$g$rangelen%d", ord), "Int", e.mapLen(e.cur, mt, m))
	}
}

// mapRangeOrd numbers the range-over-map statements of the function in source order.
func (e *Enc) mapRangeOrd(r *ssa.Range) int {
	if e.mapRanges == nil {
		type rp struct {
			r   *ssa.Range
			pos token.Pos
		}
		var all []rp
		for _, b := range e.fn.Blocks {
			for _, in := range b.Instrs {
				if rr, ok := in.(*ssa.Range); ok {
					if _, isMap := rr.X.Type().Underlying().(*types.Map); isMap {
						all = append(all, rp{rr, rr.Pos()})
					}
				}
			}
		}
		sort.SliceStable(all, func(i, j int) bool { return all[i].pos < all[j].pos })
		e.mapRanges = map[*ssa.Range]int{}
		for i, x := range all {
			e.mapRanges[x.r] = i
		}
	}
	return e.mapRanges[r]
}

func (e *Enc) execNext(in *ssa.Next) {
	ok := e.fresh("next_ok", "Bool")
	rng, _ := in.Iter.(*ssa.Range)
	tt := in.Type().(*types.Tuple)
	kT, vT := tt.At(1).Type(), tt.At(2).Type()
	var kv, vv Val
	if in.IsString {
		k := e.fresh("next_idx", "Int")
		r := e.fresh("next_rune", "Int")
		if rng != nil {
			x := e.val(rng.X).T
			e.assume(tImp(ok, tAnd(tLe("0", k), tLt(k, sx("str-len", x)), tLe("0", r), tLe(r, "1114111"))))
		}
		kv, vv = Val{T: k}, Val{T: r}
	} else {
		var mt *types.Map
		if rng != nil {
			mt, _ = rng.X.Type().Underlying().(*types.Map)
		}
		ks := "Int"
		if mt != nil {
			ks = e.sortOf(mt.Key())
		}
		k := e.fresh("next_key", ks)
		kv = Val{T: k}
		if mt != nil {
			m := e.val(rng.X).T
			e.assume(tImp(ok, e.mapHas(e.cur, mt, m, k)))
			// Go's iteration semantics (trusted, listed): every key is produced at most once; the iteration ends only
			// when every entry that was present at the start and is still present has been produced; if the key set
			// was not changed meanwhile, exactly len(m) keys were produced
			ord := e.mapRangeOrd(rng)
			seenH, cntH, has0H, len0H := fmt.Sprintf("$g$rangeseen%d", ord), fmt.Sprintf("$g$rangecount%d", ord), fmt.Sprintf("$g$rangehas%d", ord), fmt.Sprintf("$g$rangelen%d", ord)
			ss := fmt.Sprintf("(Array %s Bool)", ks)
			seen := e.hget(e.cur, seenH, ss)
			cnt := e.hget(e.cur, cntH, "Int")
			has0 := e.hget(e.cur, has0H, ss)
			len0 := e.hget(e.cur, len0H, "Int")
			hs := e.mapHeaps(mt)
			hasCur := tSel(e.hget(e.cur, hs[1][0], hs[1][1]), m)
			e.used["range over a map: Go's iteration semantics (each key produced at most once; ends only after every entry present throughout was produced; len(m) keys if the key set did not change)"] = true
			e.assume(tImp(ok, tNot(tSel(seen, k))))
			e.assume(tImp(tNot(ok), fmt.Sprintf("(forall ((j!r %s)) (! (=> (and (select %s j!r) (select %s j!r)) (select %s j!r)) :pattern ((select %s j!r))))", ks, has0, hasCur, seen, seen)))
			e.assume(tImp(tAnd(tNot(ok), tEq(hasCur, has0)), tEq(cnt, len0)))
			e.assume(tAnd(tLe("0", cnt), tLe(cnt, len0)))
			e.hset(e.cur, seenH, ss, tIte(ok, tStore(seen, k, tTrue), seen))
			e.hset(e.cur, cntH, "Int", tIte(ok, tAdd(cnt, "1"), cnt))
			e.assume(tImp(ok, e.typeFacts(k, mt.Key(), e.cur)))
			v := e.define("next_val", e.sortOf(mt.Elem()), e.mapGet(e.cur, mt, m, k))
			e.assume(tImp(ok, e.typeFacts(v, mt.Elem(), e.cur)))
			vv = Val{T: v}
		} else {
			vv = Val{T: e.fresh("next_val", e.sortOf(vT))}
		}
		_ = kT
	}
	e.vals[in] = Val{Tup: []Val{{T: ok}, kv, vv}}
	e.atResTypes = []types.Type{types.Typ[types.Bool], kT, vT}
	e.applyAts("next", "", in.Pos(), nil, []Val{{T: ok}, kv, vv})
	e.atResTypes = nil
}

func sortedKeys(m map[string]bool) []string {
	var out []string
	for k := range m {
		out = append(out, k)
	}
	sort.Strings(out)
	return out
}

// immutableCapture: fv is a captured variable that is assigned exactly once, in the entry block of the function that
// declares it and before any closure over it is created (a captured parameter or receiver, or a local initialised once),
// whose address is otherwise only loaded from or bound to further closures. Every load of it, in any activation of any
// of those closures, yields the same value, so no call can change what this closure reads from it.
func immutableCapture(fn *ssa.Function, fv *ssa.FreeVar) bool {
	idx := -1
	for i, v := range fn.FreeVars {
		if v == fv {
			idx = i
		}
	}
	parent := fn.Parent()
	if idx < 0 || parent == nil {
		return false
	}
	// the variable as seen by the parent
	var bound ssa.Value
	for _, b := range parent.Blocks {
		for _, in := range b.Instrs {
			if mc, ok := in.(*ssa.MakeClosure); ok && mc.Fn == ssa.Value(fn) && idx < len(mc.Bindings) {
				if bound != nil && bound != mc.Bindings[idx] {
					return false
				}
				bound = mc.Bindings[idx]
			}
		}
	}
	switch b := bound.(type) {
	case *ssa.FreeVar:
		return immutableCapture(parent, b)
	case *ssa.Alloc:
		return singleInitAlloc(parent, b)
	}
	return false
}

func singleInitAlloc(root *ssa.Function, a *ssa.Alloc) bool {
	stores := 0
	ok := true
	firstClosure := -1 // instruction index in block 0 of the first closure over a (if created there)
	var visit func(v ssa.Value, inRoot bool)
	visit = func(v ssa.Value, inRoot bool) {
		refs := v.Referrers()
		if refs == nil {
			ok = false
			return
		}
		for _, r := range *refs {
			switch r := r.(type) {
			case *ssa.DebugRef:
			case *ssa.UnOp:
				if r.Op != token.MUL {
					ok = false
				}
			case *ssa.Store:
				if r.Addr != v || r.Val == v {
					ok = false
					continue
				}
				stores++
				if !inRoot || r.Block() != root.Blocks[0] {
					ok = false
					continue
				}
				for i, in := range root.Blocks[0].Instrs {
					if in == ssa.Instruction(r) && firstClosure >= 0 && i > firstClosure {
						ok = false
					}
				}
			case *ssa.MakeClosure:
				cf, isFn := r.Fn.(*ssa.Function)
				if !isFn {
					ok = false
					continue
				}
				for i, bv := range r.Bindings {
					if bv == v && i < len(cf.FreeVars) {
						visit(cf.FreeVars[i], false)
					}
				}
			default:
				ok = false
			}
		}
	}
	for i, in := range root.Blocks[0].Instrs {
		if mc, isMC := in.(*ssa.MakeClosure); isMC {
			for _, bv := range mc.Bindings {
				if bv == ssa.Value(a) && firstClosure < 0 {
					firstClosure = i
				}
			}
		}
	}
	visit(a, true)
	return ok && stores <= 1
}
