package main

import (
	"encoding/json"
	"flag"
	"fmt"
	"go/types"
	"os"
	"path/filepath"
	"sort"
	"strconv"
	"strings"
	"time"

	"golang.org/x/tools/go/ssa"
)

func implementsIface(t types.Type, it types.Type) bool {
	iface, ok := it.Underlying().(*types.Interface)
	if !ok {
		return false
	}
	return types.Implements(t, iface)
}

var (
	repoDir  = "/repo"
	verifDir = "/verif"
)

func main() {
	if len(os.Args) < 2 {
		usage()
	}
	if v := os.Getenv("GOVC_REPO"); v != "" {
		repoDir = v
	}
	if v := os.Getenv("GOVC_VERIF"); v != "" {
		verifDir = v
	}
	switch os.Args[1] {
	case "check":
		os.Exit(cmdCheck(os.Args[2:]))
	case "fn":
		os.Exit(cmdFn(os.Args[2:]))
	case "ssa":
		os.Exit(cmdSSA(os.Args[2:]))
	case "replay":
		os.Exit(cmdReplay(os.Args[2:]))
	case "selftest":
		os.Exit(cmdSelftest(os.Args[2:]))
	case "list":
		os.Exit(cmdList(os.Args[2:]))
	case "names":
		os.Exit(cmdNames(os.Args[2:]))
	default:
		usage()
	}
}

func usage() {
	fmt.Fprintln(os.Stderr, "usage: govc check <property> [--tier quick|thorough] | fn <key> [--dump] | ssa <pkgdir> [name] | replay <file> | selftest [property] | list")
	os.Exit(2)
}

// pkgDirOfKey maps a contract key to a "./dir" pattern relative to the repo.
func pkgDirOfKey(key, module string) string {
	k := key
	k = strings.TrimPrefix(k, "(")
	k = strings.TrimPrefix(k, "*")
	if !strings.HasPrefix(k, module) {
		return ""
	}
	rest := k[len(module):]
	// rest: "/streams.limitReadCloser).Read" or ".Func" (root package)
	i := strings.Index(rest, ".")
	if i < 0 {
		return ""
	}
	dir := strings.TrimPrefix(rest[:i], "/")
	if dir == "" {
		return "."
	}
	return "./" + dir
}

type fnResult struct {
	Key     string
	Enc     *Enc
	Err     string
	Covers  []*Oblig
	Skipped bool
}

// verifyFunctions encodes and discharges the listed functions.
func verifyFunctions(w *World, keys []string, timeoutS int, twoSolver bool, scratch string) []*fnResult {
	var res []*fnResult
	var encs []*Enc
	for _, k := range keys {
		fc := w.C.Funcs[k]
		r := &fnResult{Key: k}
		res = append(res, r)
		fn := w.findFunction(k)
		if fn == nil {
			r.Err = "function not found in the repository (renamed or removed?)"
			continue
		}
		enc, err := encodeFunction(w, fn, fc)
		if err != nil {
			r.Err = "translation failed: " + err.Error()
			continue
		}
		r.Enc = enc
		encs = append(encs, enc)
	}
	discharge(encs, scratch, timeoutS, 12, twoSolver)
	// cover checks
	var cjobs []*Enc
	for _, r := range res {
		if r.Enc == nil {
			continue
		}
		e := r.Enc
		covers := e.coverObligations()
		r.Covers = covers
		cjobs = append(cjobs, e)
	}
	runCovers(res, scratch, timeoutS)
	return res
}

func (e *Enc) coverObligations() []*Oblig {
	var out []*Oblig
	out = append(out, &Oblig{Name: "cover:pre", Kind: "cover", Fn: e.fn.String(), Reach: tTrue, NAssume: e.nEntryAsm, Src: "precondition satisfiable"})
	var reaches []Term
	maxAsm := e.nEntryAsm
	for i, rp := range e.retPoints {
		out = append(out, &Oblig{Name: fmt.Sprintf("cover:ret%d", i), Kind: "cover", Fn: e.fn.String(), Reach: rp.reach, NAssume: rp.nAsm, Src: "return reachable"})
		reaches = append(reaches, rp.reach)
		if rp.nAsm > maxAsm {
			maxAsm = rp.nAsm
		}
	}
	// every loop body must be enterable under the assumptions in force (a contradictory invariant or an unsound
	// assumption upstream would make everything inside the loop vacuously true)
	byLoop := map[string][]retPoint{}
	var loopNames []string
	for i, lc := range e.loopCovers {
		name := e.loopCoverNames[i]
		if j := strings.Index(name, "@"); j > 0 {
			name = name[:j]
		}
		if _, seen := byLoop[name]; !seen {
			loopNames = append(loopNames, name)
		}
		byLoop[name] = append(byLoop[name], lc)
	}
	for _, name := range loopNames {
		var rs []Term
		mx := 0
		for _, lc := range byLoop[name] {
			rs = append(rs, lc.reach)
			if lc.nAsm > mx {
				mx = lc.nAsm
			}
		}
		out = append(out, &Oblig{Name: name, Kind: "cover", Fn: e.fn.String(), Reach: tOr(rs...), NAssume: mx, Src: "some back edge of the loop reachable (loop body not vacuous)"})
	}
	if len(reaches) > 0 {
		out = append(out, &Oblig{Name: "cover:anyret", Kind: "cover", Fn: e.fn.String(), Reach: tOr(reaches...), NAssume: maxAsm, Src: "some return reachable (assumptions not contradictory)"})
	}
	return out
}

func runCovers(res []*fnResult, scratch string, timeoutS int) {
	type cj struct {
		e *Enc
		o *Oblig
	}
	var jobs []cj
	for _, r := range res {
		for _, o := range r.Covers {
			jobs = append(jobs, cj{r.Enc, o})
		}
	}
	ch := make(chan cj)
	done := make(chan bool)
	for i := 0; i < 12; i++ {
		go func(i int) {
			for j := range ch {
				file := filepath.Join(scratch, fmt.Sprintf("cover_%d_%p.smt2", i, j.o))
				os.WriteFile(file, []byte(j.e.buildCover(j.o.NAssume, j.o.Reach)), 0o644)
				// a cover fails only if the assumptions are contradictory (unsat)
				r := runSolver(nil2ctx(), solvers[0], file, 2)
				j.o.TimeS = r.timeS
				j.o.Solver = r.solver
				if r.status == "unsat" {
					j.o.Status = "failed"
					j.o.Output = "assumptions are contradictory (vacuous proof): " + file
					if strings.HasPrefix(j.o.Name, "cover:ret") {
						// a single unreachable return is dead defensive code, not vacuity; cover:anyret decides
						j.o.Status = "proved"
						j.o.Detail = "unreachable"
						os.Remove(file)
					}
				} else {
					j.o.Status = "proved"
					j.o.Detail = r.status
					os.Remove(file)
				}
			}
			done <- true
		}(i)
	}
	for _, j := range jobs {
		ch <- j
	}
	close(ch)
	for i := 0; i < 12; i++ {
		<-done
	}
	// at least one return must be coverable unless the function is declared noreturn
	for _, r := range res {
		if r.Enc == nil {
			continue
		}
	}
}

func cmdSSA(args []string) int {
	if len(args) < 1 {
		usage()
	}
	w, err := loadWorld(repoDir, verifDir, []string{args[0]})
	if err != nil {
		fmt.Fprintln(os.Stderr, err)
		return 2
	}
	var keys []string
	for k := range w.funcs {
		keys = append(keys, k)
	}
	sort.Strings(keys)
	for _, k := range keys {
		if len(args) > 1 && !strings.Contains(k, args[1]) {
			continue
		}
		w.funcs[k].WriteTo(os.Stdout)
	}
	return 0
}

func cmdList(args []string) int {
	c := newContracts()
	if err := c.loadLibspecs(filepath.Join(verifDir, "libspec")); err != nil {
		fmt.Fprintln(os.Stderr, err)
		return 2
	}
	mod := readModulePath(repoDir)
	for _, d := range findContractDirs(repoDir) {
		rel, _ := filepath.Rel(repoDir, d)
		p := mod
		if rel != "." {
			p += "/" + filepath.ToSlash(rel)
		}
		if err := c.loadFile(filepath.Join(d, contractFile), p, false); err != nil {
			fmt.Fprintln(os.Stderr, err)
			return 2
		}
	}
	var keys []string
	for k := range c.Funcs {
		keys = append(keys, k)
	}
	sort.Strings(keys)
	for _, k := range keys {
		f := c.Funcs[k]
		fmt.Printf("%-90s trusted=%v tags=%v\n", k, f.Trusted, f.Tags)
	}
	return 0
}

func cmdFn(args []string) int {
	fs := flag.NewFlagSet("fn", flag.ExitOnError)
	dump := fs.Bool("dump", false, "keep and print queries of undischarged obligations")
	timeout := fs.Int("timeout", 10, "per-query timeout (s)")
	all := fs.Bool("v", false, "list every obligation")
	if len(args) < 1 {
		usage()
	}
	pat := args[0]
	fs.Parse(args[1:])
	// find matching contract keys
	w0 := &World{}
	_ = w0
	c := newContracts()
	c.loadLibspecs(filepath.Join(verifDir, "libspec"))
	mod := readModulePath(repoDir)
	for _, d := range findContractDirs(repoDir) {
		rel, _ := filepath.Rel(repoDir, d)
		p := mod
		if rel != "." {
			p += "/" + filepath.ToSlash(rel)
		}
		if err := c.loadFile(filepath.Join(d, contractFile), p, false); err != nil {
			fmt.Fprintln(os.Stderr, err)
			return 2
		}
	}
	var keys []string
	dirs := map[string]bool{}
	for k, f := range c.Funcs {
		if f.Trusted || f.Skip {
			continue
		}
		if strings.Contains(k, pat) {
			keys = append(keys, k)
			if d := pkgDirOfKey(k, mod); d != "" {
				dirs[d] = true
			}
		}
	}
	sort.Strings(keys)
	if len(keys) == 0 {
		fmt.Fprintln(os.Stderr, "no contract matches", pat)
		return 2
	}
	w, err := loadWorld(repoDir, verifDir, sortedKeys(dirs))
	if err != nil {
		fmt.Fprintln(os.Stderr, err)
		return 2
	}
	scratch, _ := os.MkdirTemp("", "govc")
	if !*dump {
		defer os.RemoveAll(scratch)
	}
	res := verifyFunctions(w, keys, *timeout, false, scratch)
	bad := 0
	for _, r := range res {
		fmt.Printf("== %s\n", r.Key)
		if r.Err != "" {
			fmt.Printf("   ERROR %s\n", r.Err)
			bad++
			continue
		}
		for _, u := range r.Enc.unsup {
			fmt.Printf("   unsupported: %s\n", u)
		}
		for _, o := range append(r.Enc.obls, r.Covers...) {
			if o.Status != "proved" {
				bad++
			}
			if o.Status != "proved" || *all {
				fmt.Printf("   %-8s %-40s %-8s %.2fs %s  // %s\n", o.Status, o.Name, o.Solver, o.TimeS, posShort(o), o.Src)
				if o.Status != "proved" && *dump {
					fmt.Printf("      %s\n", strings.ReplaceAll(o.Output, "\n", "\n      "))
				}
			}
		}
		n, p := 0, 0
		for _, o := range r.Enc.obls {
			n++
			if o.Status == "proved" {
				p++
			}
		}
		fmt.Printf("   %d/%d obligations discharged\n", p, n)
	}
	if bad > 0 {
		return 1
	}
	return 0
}

func posShort(o *Oblig) string {
	if o.Pos.Filename == "" {
		return ""
	}
	return fmt.Sprintf("%s:%d", filepath.Base(o.Pos.Filename), o.Pos.Line)
}

// ---------------- check ----------------

type evidence struct {
	PropertyID  string                 `json:"property_id"`
	Tier        string                 `json:"tier"`
	Seed        int                    `json:"seed"`
	Level       string                 `json:"level"`
	Coverage    map[string]interface{} `json:"coverage"`
	Assumptions []string               `json:"assumptions"`
	WallS       float64                `json:"wall_s"`
	Violations  int                    `json:"violations"`
}

func cmdCheck(args []string) int {
	if len(args) < 1 {
		usage()
	}
	prop := args[0]
	fs := flag.NewFlagSet("check", flag.ExitOnError)
	tier := fs.String("tier", "quick", "quick|thorough")
	fs.Parse(args[1:])
	if t := os.Getenv("VERIF_TIER"); t == "quick" || t == "thorough" {
		if !flagSet(fs, "tier") {
			*tier = t
		}
	}
	seed := 0
	if s := os.Getenv("VERIF_SEED"); s != "" {
		seed, _ = strconv.Atoi(s)
	}
	t0 := time.Now()
	return runCheck(prop, *tier, seed, t0)
}

func flagSet(fs *flag.FlagSet, name string) bool {
	set := false
	fs.Visit(func(f *flag.Flag) {
		if f.Name == name {
			set = true
		}
	})
	return set
}

func hasTag(f *FuncContract, prop string) bool {
	for _, t := range f.Tags {
		if t == prop {
			return true
		}
	}
	return false
}

// oblCounts: whether obligation o (of function contract f) counts for property prop.
func oblCounts(o *Oblig, prop string) bool {
	if o.Label != "" {
		if i := strings.Index(o.Label, "."); i > 0 {
			p := o.Label[:i]
			// "[C01+C02.nonce.counter]": the clause counts for each of the listed properties
			if len(p) >= 3 && p[0] == 'C' {
				all := true
				hit := false
				for _, q := range strings.Split(p, "+") {
					if len(q) != 3 || q[0] != 'C' {
						all = false
					}
					if q == prop {
						hit = true
					}
				}
				if all {
					return hit
				}
			}
		}
	}
	return true
}

func writeJSON(path string, v interface{}) error {
	b, err := json.MarshalIndent(v, "", " ")
	if err != nil {
		return err
	}
	os.MkdirAll(filepath.Dir(path), 0o755)
	return os.WriteFile(path, append(b, '\n'), 0o644)
}

var _ = ssa.GlobalDebug
