package main

// Inlining of helper functions that have no contract.
//
// A call to a function of this module that carries no contract used to be a havoc of everything reachable (and a
// failing frame obligation in a function with a modifies clause). That made the most common harmless refactor, moving
// a few statements into a new unexported helper, a false alarm. Such a callee is now executed in place when it is
// simple enough: a function of this module with a body, no contract, no loops, no defer / recover, not a closure, not
// recursive, at most three levels deep. The callee's instructions run on the caller's symbolic state: its stores are
// checked against the caller's frame, its lock operations against the caller's lock state, its panics are the
// caller's, and its call / send / recv / ... sites take part in the caller's anchor numbering at the position of the
// call (so `at call X#k` written against the code before the extraction still finds its statement).
// Anything else keeps the old treatment (havoc, listed as an assumption).

import (
	"fmt"
	"go/token"
	"go/types"
	"os"
	"strings"

	"golang.org/x/tools/go/ssa"
)

const maxInlineDepth = 3
const maxInlineInstrs = 400

// inlineBody returns the function whose blocks are to be executed for a static call of f, or nil.
func (w *World) inlineBody(f *ssa.Function) *ssa.Function {
	if f == nil {
		return nil
	}
	g := f
	if len(g.Blocks) == 0 || g.Synthetic != "" {
		if o := f.Origin(); o != nil && len(o.Blocks) > 0 {
			g = o
		} else {
			return nil
		}
	}
	if r, ok := w.inlineOK[g]; ok {
		if r {
			return g
		}
		return nil
	}
	ok := w.computeInlinable(g)
	if w.inlineOK == nil {
		w.inlineOK = map[*ssa.Function]bool{}
	}
	w.inlineOK[g] = ok
	if ok {
		return g
	}
	return nil
}

func (w *World) computeInlinable(g *ssa.Function) bool {
	if g.Pkg == nil || !strings.HasPrefix(g.Pkg.Pkg.Path(), w.modulePath) {
		return false
	}
	if os.Getenv("GOVC_NO_INLINE") != "" {
		return false
	}
	if len(g.FreeVars) > 0 || g.Recover != nil || g.Parent() != nil {
		return false
	}
	if w.C.Funcs[normalizeFnKey(g.String())] != nil {
		return false
	}
	n := 0
	for _, b := range g.Blocks {
		n += len(b.Instrs)
		for _, in := range b.Instrs {
			switch in.(type) {
			case *ssa.Defer, *ssa.RunDefers, *ssa.Go, *ssa.Select, *ssa.Range, *ssa.Next:
				return false
			}
		}
	}
	if n > maxInlineInstrs {
		return false
	}
	// acyclic control flow only (a loop needs an invariant, and there is no contract to hold one)
	state := map[*ssa.BasicBlock]int{}
	var cyc bool
	var dfs func(b *ssa.BasicBlock)
	dfs = func(b *ssa.BasicBlock) {
		state[b] = 1
		for _, s := range b.Succs {
			if state[s] == 1 {
				cyc = true
			} else if state[s] == 0 {
				dfs(s)
			}
		}
		state[b] = 2
	}
	dfs(g.Blocks[0])
	return !cyc
}

// inlineTarget decides whether the call c (of the function under verification, or of an inlined body) is executed in place.
func (e *Enc) inlineTarget(c *ssa.CallCommon) *ssa.Function {
	if c.IsInvoke() {
		return nil
	}
	f := c.StaticCallee()
	if f == nil {
		return nil
	}
	if _, isClosure := c.Value.(*ssa.MakeClosure); isClosure {
		return nil
	}
	g := e.W.inlineBody(f)
	if g == nil {
		return nil
	}
	if len(e.inlineStack) >= maxInlineDepth || g == e.fn {
		return nil
	}
	for _, s := range e.inlineStack {
		if s == g {
			return nil
		}
	}
	return g
}

type inlineRet struct {
	reach Term
	st    *State
	vals  []Val
}

// inlineCall executes g in place with the given arguments and returns its results.
func (e *Enc) inlineCall(g *ssa.Function, args []Val, in ssa.Instruction) []Val {
	e.used["helper without contract executed in place (inlined): "+g.String()] = true
	if len(args) != len(g.Params) {
		e.fail("inlining %s: %d arguments for %d parameters", g, len(args), len(g.Params))
	}
	for i, p := range g.Params {
		e.vals[p] = args[i]
	}
	savedBack, savedBlock, savedInstr, savedHome := e.backEdges, e.curBlock, e.curInstr, e.inlineHome
	if e.inlineHome == nil {
		e.inlineHome = e.curBlock
	}
	e.backEdges = map[[2]int]bool{}
	e.inlineStack = append(e.inlineStack, g)
	e.inlineRets = append(e.inlineRets, nil)
	dbg := map[string][]ssa.Value{}
	e.collectDebugOf(g, dbg)
	for _, p := range g.Params {
		dbg[p.Name()] = append(dbg[p.Name()], p)
	}
	e.inlineDebug = append(e.inlineDebug, dbg)
	callReach := e.curReach

	order := inlineTopo(g)
	for _, b := range order {
		if b.Index == 0 {
			e.curBlock = b
			e.reach[b] = callReach
			e.curReach = callReach
		} else {
			e.enterBlock(b)
		}
		for _, ins := range b.Instrs {
			if _, isPhi := ins.(*ssa.Phi); isPhi {
				continue
			}
			e.curInstr = ins
			if r, ok := ins.(*ssa.Return); ok {
				var vs []Val
				for _, x := range r.Results {
					vs = append(vs, e.val(x))
				}
				top := len(e.inlineRets) - 1
				e.inlineRets[top] = append(e.inlineRets[top], inlineRet{reach: e.curReach, st: e.cur, vals: vs})
				continue
			}
			e.exec(ins)
		}
		e.exitSt[b] = e.cur
	}
	rets := e.inlineRets[len(e.inlineRets)-1]
	e.inlineRets = e.inlineRets[:len(e.inlineRets)-1]
	e.inlineStack = e.inlineStack[:len(e.inlineStack)-1]
	e.inlineDebug = e.inlineDebug[:len(e.inlineDebug)-1]
	e.backEdges, e.curBlock, e.curInstr, e.inlineHome = savedBack, savedBlock, savedInstr, savedHome

	nres := 0
	if g.Signature != nil {
		nres = g.Signature.Results().Len()
	}
	e.curReach = callReach
	if len(rets) == 0 {
		// the helper never returns (every path panics, and each panic was an obligation): what follows is unreachable
		e.assume(tFalse)
		return e.freshResults(g.Signature, "inl_"+g.Name())
	}
	var sts []*State
	var conds []Term
	for _, r := range rets {
		sts = append(sts, r.st)
		conds = append(conds, r.reach)
	}
	e.cur = e.mergeStates(sts, conds)
	// execution continues after the call only on a path that returned from the helper (the other exits are panics,
	// each of which was an obligation and is assumed not to happen afterwards)
	e.assume(tOr(conds...))
	var out []Val
	for i := 0; i < nres; i++ {
		var t Term
		var tup []Val
		for k := len(rets) - 1; k >= 0; k-- {
			v := rets[k].vals[i]
			if v.Tup != nil {
				tup = v.Tup
			}
			if k == len(rets)-1 {
				t = v.T
			} else {
				t = tIte(conds[k], v.T, t)
			}
		}
		if tup != nil && len(rets) == 1 {
			out = append(out, rets[0].vals[i])
			continue
		}
		rt := g.Signature.Results().At(i).Type()
		c := e.fresh(fmt.Sprintf("inl_%s_r%d", g.Name(), i), e.sortOf(rt))
		e.assumeG(tEq(c, t))
		out = append(out, Val{T: c})
	}
	return out
}

// inlineTopo: blocks of an acyclic function in topological order, unreachable ones last.
func inlineTopo(g *ssa.Function) []*ssa.BasicBlock {
	indeg := make([]int, len(g.Blocks))
	reachable := map[*ssa.BasicBlock]bool{}
	var mark func(b *ssa.BasicBlock)
	mark = func(b *ssa.BasicBlock) {
		if reachable[b] {
			return
		}
		reachable[b] = true
		for _, s := range b.Succs {
			mark(s)
		}
	}
	mark(g.Blocks[0])
	for _, b := range g.Blocks {
		if !reachable[b] {
			continue
		}
		for _, s := range b.Succs {
			indeg[s.Index]++
		}
	}
	var order, ready []*ssa.BasicBlock
	ready = append(ready, g.Blocks[0])
	for len(ready) > 0 {
		b := ready[0]
		ready = ready[1:]
		order = append(order, b)
		for _, s := range b.Succs {
			indeg[s.Index]--
			if indeg[s.Index] == 0 {
				ready = append(ready, s)
			}
		}
	}
	return order
}

// ---- anchor sites of inlined bodies -----------------------------------------------------------------------------

type sitePath []token.Pos

func lessPath(a, b sitePath) (less, decided bool) {
	for i := 0; i < len(a) && i < len(b); i++ {
		pa, pb := a[i], b[i]
		if pa.IsValid() && pb.IsValid() && pa != pb {
			return pa < pb, true
		}
		if pa.IsValid() != pb.IsValid() {
			return pa.IsValid(), true
		}
	}
	return false, false
}

// inlineSites walks the bodies that will be inlined below the call `in` and reports their anchor sites with the
// position path (position of the outermost call first).
func (e *Enc) inlineSites(g *ssa.Function, prefix sitePath, stack []*ssa.Function, visit func(in ssa.Instruction, path sitePath, blk, idx int)) {
	for _, b := range g.Blocks {
		for i, in := range b.Instrs {
			if _, isRet := in.(*ssa.Return); !isRet {
				path := append(append(sitePath{}, prefix...), in.Pos())
				visit(in, path, b.Index, i)
			}
			if call, ok := in.(*ssa.Call); ok {
				if h := e.inlineTargetStatic(call.Common(), append(stack, g)); h != nil {
					e.inlineSites(h, append(append(sitePath{}, prefix...), in.Pos()), append(stack, g), visit)
				}
			}
		}
	}
}

// inlineTargetStatic is inlineTarget for a hypothetical inline stack (used while numbering sites before execution).
func (e *Enc) inlineTargetStatic(c *ssa.CallCommon, stack []*ssa.Function) *ssa.Function {
	if c.IsInvoke() {
		return nil
	}
	f := c.StaticCallee()
	if f == nil {
		return nil
	}
	if _, isClosure := c.Value.(*ssa.MakeClosure); isClosure {
		return nil
	}
	g := e.W.inlineBody(f)
	if g == nil || len(stack) >= maxInlineDepth || g == e.fn {
		return nil
	}
	for _, s := range stack {
		if s == g {
			return nil
		}
	}
	return g
}

var _ = types.Typ
