package main

import (
	"context"
	"encoding/json"
	"fmt"
	"go/token"
	"go/types"
	"os"
	"os/exec"
	"path/filepath"
	"sort"
	"strconv"
	"strings"
	"time"
)

func nil2ctx() context.Context { return context.Background() }

type retPoint struct {
	reach Term
	nAsm  int
}

type knownFinding struct {
	Property    string `json:"property"`
	Function    string `json:"function"`
	Obligation  string `json:"obligation"`
	Labels      []string `json:"labels,omitempty"` // when set: only obligations carrying one of these clause labels are this finding
	Status      string `json:"status"` // known | fixed
	Commit      string `json:"commit,omitempty"`
	Witness     string `json:"witness,omitempty"`
	Description string `json:"description"`
}

func loadAllContracts() (*Contracts, string, error) {
	c := newContracts()
	if err := c.loadLibspecs(filepath.Join(verifDir, "libspec")); err != nil {
		return nil, "", err
	}
	mod := readModulePath(repoDir)
	for _, d := range findContractDirs(repoDir) {
		rel, _ := filepath.Rel(repoDir, d)
		p := mod
		if rel != "." {
			p += "/" + filepath.ToSlash(rel)
		}
		if err := c.loadFile(filepath.Join(d, contractFile), p, false); err != nil {
			// a contract file that does not parse fails the checks that involve its package, not every check
			c.LoadErrors = append(c.LoadErrors, loadError{Pkg: p, Err: err.Error()})
		}
	}
	return c, mod, nil
}

func runCheck(prop, tier string, seed int, t0 time.Time) int {
	evPath := filepath.Join(verifDir, "evidence", prop+".json")
	replayDir := filepath.Join(verifDir, "replay", prop)
	os.RemoveAll(replayDir)
	fatal := func(msg string) int {
		// a check that cannot run reports a violation of its own obligations: never a silent pass
		os.MkdirAll(replayDir, 0o755)
		rp := filepath.Join(replayDir, "engine-failure.json")
		writeJSON(rp, map[string]interface{}{"property": prop, "obligation": "engine", "error": msg})
		fmt.Printf("ENGINE-FAILURE: %s\n", msg)
		fmt.Printf("VIOLATION property=%s replay=%s no-failing-input-found\n", prop, rp)
		writeJSON(evPath, evidence{PropertyID: prop, Tier: tier, Seed: seed, Level: "proof",
			Coverage:    map[string]interface{}{"obligations": 1, "discharged": 0, "checker_cmd": "govc check " + prop, "trusted_base": []string{}, "explanation": "engine failure: " + msg},
			Assumptions: []string{}, WallS: time.Since(t0).Seconds(), Violations: 1})
		return 1
	}
	c, mod, err := loadAllContracts()
	if err != nil {
		return fatal("contracts do not parse: " + err.Error())
	}
	var keys []string
	dirs := map[string]bool{}
	for k, f := range c.Funcs {
		if f.Trusted || f.Skip {
			continue
		}
		if hasTag(f, prop) {
			if only := os.Getenv("GOVC_ONLY_DIRS"); only != "" {
				// mutant runs: verification is modular, so only the packages whose code changed need re-checking
				d := pkgDirOfKey(k, mod)
				hit := false
				for _, o := range strings.Split(only, ",") {
					if d == "./"+strings.TrimPrefix(o, "./") {
						hit = true
					}
				}
				if !hit {
					continue
				}
			}
			keys = append(keys, k)
			if d := pkgDirOfKey(k, mod); d != "" {
				dirs[d] = true
			}
		}
	}
	sort.Strings(keys)
	for _, le := range c.LoadErrors {
		if le.Pkg == "libspec" {
			fmt.Printf("WARNING: %s\n", le.Err)
			continue
		}
		rel := strings.TrimPrefix(strings.TrimPrefix(le.Pkg, mod), "/")
		if dirs["./"+rel] || len(keys) == 0 || (rel == "" && dirs["."]) {
			return fatal("contracts do not parse: " + le.Err)
		}
		fmt.Printf("WARNING: contract file of package %s does not parse (not involved in %s): %s\n", le.Pkg, prop, le.Err)
	}
	if len(keys) == 0 {
		return fatal("no function under contract is tagged " + prop)
	}
	w, err := loadWorld(repoDir, verifDir, sortedKeys(dirs))
	if err != nil {
		return fatal("repository does not load: " + err.Error())
	}
	loadS := time.Since(t0).Seconds()
	scratch, _ := os.MkdirTemp("", "govc-"+prop+"-")
	defer os.RemoveAll(scratch)
	timeout := 40 // per query; discharged obligations need well under 5 s, the margin is for a loaded machine
	two := false
	if tier == "thorough" {
		timeout = 60
		two = true
	}
	// the must-fail corpus only needs the expected obligation NOT to be discharged: a shorter per-query limit there
	if v, err := strconv.Atoi(os.Getenv("GOVC_QUERY_TIMEOUT")); err == nil && v > 0 {
		timeout = v
	}
	res := verifyFunctions(w, keys, timeout, two, scratch)
	coverageFails := checkCoverage(w, prop)

	// ---- collect ----
	total, discharged := 0, 0
	bySolver := map[string]int{}
	solverTime := 0.0
	var failures []*Oblig
	var fnErrs []string
	var fnList []map[string]interface{}
	assumptions := map[string]bool{}
	contractFiles := map[string]bool{}
	var samples []map[string]interface{}
	kinds := map[string]int{}
	unsup := map[string]bool{}
	for _, r := range res {
		if r.Err != "" {
			total++
			fnErrs = append(fnErrs, r.Key+": "+r.Err)
			failures = append(failures, &Oblig{Name: "translate", Kind: "engine", Fn: r.Key, Status: "failed", Output: r.Err, Src: r.Err})
			continue
		}
		e := r.Enc
		n, p := 0, 0
		// a failed obligation is assumed afterwards, which can make later code unreachable: cover failures of a
		// function that already has a failing obligation are consequences, not findings
		hasFailure := false
		for _, o := range e.obls {
			if o.Status != "proved" {
				hasFailure = true
			}
		}
		if hasFailure {
			for _, c := range r.Covers {
				if c.Status != "proved" {
					c.Status = "proved"
					c.Detail = "not evaluated: follows a failing obligation of the same function"
				}
			}
		}
		for _, o := range append(append([]*Oblig{}, e.obls...), r.Covers...) {
			if !oblCounts(o, prop) {
				continue
			}
			n++
			total++
			kinds[o.Kind]++
			solverTime += o.TimeS
			if o.Status == "proved" {
				p++
				discharged++
				bySolver[o.Solver]++
			} else {
				failures = append(failures, o)
			}
			if len(samples) < 6 && o.Kind != "cover" && o.Solver != "trivial" && (o.Kind == "post" || o.Kind == "inv_preserve" || o.Kind == "frame" || len(samples) < 2) {
				samples = append(samples, map[string]interface{}{"function": e.fn.String(), "obligation": o.Name, "kind": o.Kind, "spec": o.Src, "status": o.Status, "solver": o.Solver, "goal_smt": trunc(o.Goal, 400)})
			}
		}
		mode := "int (mathematical integers; wrap-around over-approximated by an unconstrained in-range value)"
		if e.bv {
			mode = "bv (fixed-width bit-vectors, exact)"
		}
		fnList = append(fnList, map[string]interface{}{"function": e.fn.String(), "obligations": n, "discharged": p, "integer_mode": mode, "loops": len(e.loops)})
		for a := range e.used {
			assumptions[a] = true
		}
		if e.fc != nil && e.fc.File != "" {
			contractFiles[e.fc.File] = true
		}
		if e.fc != nil {
			if al := w.renamed[e.fc.Key]; len(al) > 0 {
				var parts []string
				for o, n := range al {
					parts = append(parts, o+" -> "+n)
				}
				sort.Strings(parts)
				assumptions["variables of "+e.fn.String()+" were renamed since its contract was written; the contract's names are mapped by position / declaration order: "+strings.Join(parts, ", ")] = true
			}
		}
		// a precondition of an exported function excludes inputs of the claim: list it
		if e.fc != nil && e.fn.Parent() == nil && token.IsExported(e.fn.Name()) {
			for _, cl := range e.fc.Requires {
				assumptions["precondition of exported "+e.fn.String()+" (inputs outside it are not covered): "+cl.Src] = true
			}
		}
		for _, u := range e.unsup {
			unsup[e.fn.String()+": "+u] = true
		}
	}
	for _, o := range coverageFails {
		total++
		kinds[o.Kind]++
		failures = append(failures, o)
	}
	// free-text assumptions of a spec file are listed when one of that file's contracts was actually used
	usedFiles := map[string]bool{}
	for f := range contractFiles {
		usedFiles[f] = true // an assume-text in a contract file goes with the functions that file puts under contract
	}
	for a := range assumptions {
		if strings.HasPrefix(a, "assumed contract: ") {
			if fc := w.C.Funcs[normalizeFnKey(strings.TrimPrefix(a, "assumed contract: "))]; fc != nil {
				usedFiles[fc.File] = true
			}
		}
	}
	for _, a := range w.C.Assumes {
		if f, ok := w.C.AssumeFile[a]; !ok || usedFiles[f] {
			assumptions[a] = true
		}
	}
	// ---- known findings ----
	kfs := loadKnownFindings()
	var real []*Oblig
	var knownSeen []string
	for _, o := range failures {
		matched := false
		for _, kf := range kfs {
			if kf.Status == "known" && kf.Property == prop && strings.HasPrefix(o.Name, kf.Obligation) && strings.HasSuffix(o.Fn, kf.Function) {
				if len(kf.Labels) > 0 {
					ok := false
					for _, l := range kf.Labels {
						if l == o.Label {
							ok = true
						}
					}
					if !ok {
						continue // another clause at the same anchor: a different violation, reported
					}
				}
				matched = true
				fmt.Printf("KNOWN-FINDING: property=%s %s\n", prop, kf.Description)
				knownSeen = append(knownSeen, kf.Obligation+" in "+kf.Function)
				total-- // a registered finding is reported, not claimed: it is not part of the obligations counted as proof
			}
		}
		if !matched {
			real = append(real, o)
		}
	}
	// ---- bounded stand-ins (never counted as proved) ----
	var boundedEv []map[string]interface{}
	var boundedFails []boundedResult
	for _, bs := range loadBounded(prop) {
		br := runBounded(bs, tier, seed, scratch)
		boundedEv = append(boundedEv, map[string]interface{}{"name": bs.Name, "level": "bounded (not a proof)", "bound": bs.Bound, "stands_in_for": bs.StandsInFor,
			"cases": br.Cases, "ok": br.OK, "wall_s": round2(br.WallS)})
		if br.Known != "" {
			// instances of a recorded known finding (the test compares the wrong result with the finding's fingerprint):
			// reported, not raised -- but only if known_findings.json really lists it (obligation "bounded:<name>")
			known := false
			for _, kf := range loadKnownFindings() {
				if kf.Status == "known" && kf.Property == prop && kf.Obligation == "bounded:"+bs.Name {
					known = true
					fmt.Printf("KNOWN-FINDING: property=%s %s\n", prop, kf.Description)
					fmt.Printf("  instances in this run: %s\n", br.Known)
				}
			}
			if !known {
				br.OK = false
			}
		}
		if !br.OK {
			// any other failure of a stand-in (including a wrong result that differs from a known finding's fingerprint)
			boundedFails = append(boundedFails, br)
		}
	}
	// ---- report ----
	exit := 0
	for i, br := range boundedFails {
		exit = 1
		os.MkdirAll(replayDir, 0o755)
		rp := filepath.Join(replayDir, fmt.Sprintf("bounded-%02d-%s.json", i, sanitize(br.Spec.Name)))
		writeJSON(rp, map[string]interface{}{"property": prop, "obligation": "bounded:" + br.Spec.Name, "bound": br.Spec.Bound, "output": br.Output,
			"replay_cmd": "GOVC_BOUNDED_N=<n> VERIF_SEED=<seed> go test -overlay … (see /verif/bounded/" + br.Spec.TestFile + ")"})
		fmt.Printf("VIOLATION property=%s replay=%s\n", prop, rp)
		fmt.Printf("  bounded stand-in %s failed: %s\n", br.Spec.Name, firstLines(grepLine(br.Output, "BOUNDED-FAIL"), 1))
	}
	if len(real) > 0 {
		exit = 1
		os.MkdirAll(replayDir, 0o755)
		for i, o := range real {
			rp := filepath.Join(replayDir, fmt.Sprintf("%02d-%s.json", i, sanitize(o.Name)))
			verdict := reportFailure(w, o, rp, prop, scratch)
			if verdict == "REPRODUCED" {
				fmt.Printf("VIOLATION property=%s replay=%s\n", prop, rp)
			} else {
				fmt.Printf("VIOLATION property=%s replay=%s no-failing-input-found\n", prop, rp)
			}
			fmt.Printf("  obligation %s of %s %s: %s\n", o.Name, o.Fn, o.Status, o.Src)
		}
	}
	// ---- thorough: the property's must-fail mutants (on scratch copies of the current tree) ----
	var mutantEv map[string]interface{}
	if tier == "thorough" && os.Getenv("GOVC_NO_SELFTEST") == "" && os.Getenv("GOVC_REPO") == "" {
		mutantEv = runSelftest(prop)
	}
	// slowest discharged obligations (stability watch: anything near the limit should be split or strengthened)
	var allObl []*Oblig
	for _, r := range res {
		if r.Enc != nil {
			for _, o := range r.Enc.obls {
				if o.Status == "proved" && o.Solver != "trivial" {
					allObl = append(allObl, o)
				}
			}
		}
	}
	sort.Slice(allObl, func(i, j int) bool { return allObl[i].TimeS > allObl[j].TimeS })
	var slowest []map[string]interface{}
	for i, o := range allObl {
		if i >= 8 {
			break
		}
		slowest = append(slowest, map[string]interface{}{"function": o.Fn, "obligation": o.Name, "time_s": round2(o.TimeS), "solver": o.Solver})
	}
	trusted := sortedKeys(assumptions)
	trusted = append(trusted,
		"go/packages + go/ssa (x/tools v0.29.0) SSA construction",
		"govc SSA->SMT encoding (this tool); machine integers: mathematical with wrap-around over-approximated (int-mode) or exact bit-vectors (bv-mode); slice/string lengths assumed <= 2^56 (address space)",
		"z3 4.8.12 / z3-new 5.1.0 / cvc5 1.0.x: an unsat answer from one solver is accepted (thorough: two)")
	cov := map[string]interface{}{
		"obligations":              total,
		"discharged":               discharged,
		"checker_cmd":              fmt.Sprintf("./bin/govc check %s --tier %s", prop, tier),
		"trusted_base":             trusted,
		"functions_under_contract": fnList,
		"by_solver":                bySolver,
		"by_kind":                  kinds,
		"solver_time_s":            round2(solverTime),
		"load_time_s":              round2(loadS),
		"samples":                  samples,
		"unsupported_constructs":   sortedKeys(unsup),
		"known_findings_seen":      knownSeen,
		"not_proved":               obligNames(failures),
		"per_query_timeout_s":      timeout,
		"bounded":                  boundedEv,
		"slowest_obligations":      slowest,
		"must_fail_mutants":        mutantEv,
		"explanation":              "Each obligation is a verification condition generated from go/ssa of /repo's working tree for a function under contract (contracts: zz_contracts_verif.go in the package, tag verif); discharged = negated goal unsat.",
	}
	ev := evidence{PropertyID: prop, Tier: tier, Seed: seed, Level: "proof", Coverage: cov, Assumptions: trusted, WallS: round2(time.Since(t0).Seconds()), Violations: len(real) + len(boundedFails)}
	if err := writeJSON(evPath, ev); err != nil {
		fmt.Fprintln(os.Stderr, "cannot write evidence:", err)
		return 1
	}
	fmt.Printf("property %s: %d/%d obligations discharged over %d functions (%.1fs, solver %.1fs)\n", prop, discharged, total, len(fnList), time.Since(t0).Seconds(), solverTime)
	return exit
}

func obligNames(os []*Oblig) []string {
	var out []string
	for _, o := range os {
		out = append(out, o.Fn+" :: "+o.Name)
	}
	return out
}

func round2(f float64) float64 { return float64(int(f*100+0.5)) / 100 }

func trunc(s string, n int) string {
	if len(s) > n {
		return s[:n] + "…"
	}
	return s
}

func sanitize(s string) string {
	return strings.Map(func(r rune) rune {
		if r >= 'a' && r <= 'z' || r >= 'A' && r <= 'Z' || r >= '0' && r <= '9' || r == '-' || r == '_' || r == '.' {
			return r
		}
		return '_'
	}, s)
}

func loadKnownFindings() []knownFinding {
	var kfs []knownFinding
	b, err := os.ReadFile(filepath.Join(verifDir, "known_findings.json"))
	if err != nil {
		return nil
	}
	if err := jsonUnmarshal(b, &kfs); err != nil {
		fmt.Fprintln(os.Stderr, "known_findings.json:", err)
	}
	return kfs
}

// reportFailure writes the replay file for an undischarged obligation. Returns the verdict.
func reportFailure(w *World, o *Oblig, path, prop, scratch string) string {
	rec := map[string]interface{}{
		"property":      prop,
		"obligation":    o.Name,
		"kind":          o.Kind,
		"function":      o.Fn,
		"spec":          o.Src,
		"position":      fmt.Sprintf("%s:%d", o.Pos.Filename, o.Pos.Line),
		"status":        o.Status,
		"solver_output": o.Output,
		"goal_smt":      o.Goal,
		"verdict":       "no-failing-input-found",
	}
	verdict := "no-failing-input-found"
	if o.enc != nil && o.Kind != "cover" && o.Kind != "engine" && o.enc.fc != nil && o.enc.fc.ReplayTmpl != "" {
		src, vals, why := o.enc.templateReplay(o, scratch)
		rec["model"] = vals
		if src == "" {
			rec["replay"] = "not generated: " + why
		} else {
			rec["replay_test"] = src
			rec["replay_pkg"] = o.enc.fn.Pkg.Pkg.Path()
			v, out := runReplay(w, o.enc.fn.Pkg.Pkg.Path(), src, scratch)
			rec["replay_output"] = out
			rec["replay_verdict"] = v
			if v == "REPRODUCED" {
				verdict = "REPRODUCED"
				rec["verdict"] = "REPRODUCED"
			} else {
				rec["verdict"] = "no-failing-input-found (model replay: " + v + ")"
			}
		}
	} else if o.enc != nil && o.Kind != "cover" && o.Kind != "engine" {
		params, why, ok := o.enc.extractCE(o, scratch)
		if !ok {
			rec["counterexample"] = "none: " + why
		} else {
			rec["model"] = params
			if why != "" {
				rec["model_note"] = why
			}
			src, why2 := o.enc.genReplayTest(o, params)
			if src == "" {
				rec["replay"] = "not generated: " + why2
			} else {
				rec["replay_test"] = src
				rec["replay_pkg"] = o.enc.fn.Pkg.Pkg.Path()
				v, out := runReplay(w, o.enc.fn.Pkg.Pkg.Path(), src, scratch)
				rec["replay_output"] = out
				rec["replay_verdict"] = v
				if v == "REPRODUCED" {
					verdict = "REPRODUCED"
					rec["verdict"] = "REPRODUCED"
				} else {
					rec["verdict"] = "no-failing-input-found (model replay: " + v + ")"
				}
			}
		}
	}
	writeJSON(path, rec)
	return verdict
}

func cmdReplay(args []string) int {
	if len(args) < 1 {
		usage()
	}
	b, err := os.ReadFile(args[0])
	if err != nil {
		fmt.Fprintln(os.Stderr, err)
		return 2
	}
	var rec map[string]interface{}
	if err := json.Unmarshal(b, &rec); err != nil {
		fmt.Fprintln(os.Stderr, err)
		return 2
	}
	fmt.Printf("property %v, obligation %v of %v\nspec: %v\nrecorded verdict: %v\n", rec["property"], rec["obligation"], rec["function"], rec["spec"], rec["verdict"])
	src, _ := rec["replay_test"].(string)
	pkg, _ := rec["replay_pkg"].(string)
	if src == "" {
		fmt.Println("no replay test recorded; solver output:")
		fmt.Println(rec["solver_output"])
		return 1
	}
	scratch, _ := os.MkdirTemp("", "govc-replay")
	defer os.RemoveAll(scratch)
	w := &World{repo: repoDir, modulePath: readModulePath(repoDir)}
	v, out := runReplay(w, pkg, src, scratch)
	fmt.Println(out)
	fmt.Println("replay verdict:", v)
	if v == "REPRODUCED" {
		return 1
	}
	return 0
}

func cmdSelftest(args []string) int {
	fmt.Println("selftest: not implemented yet")
	return 0
}

func jsonUnmarshal(b []byte, v interface{}) error { return json.Unmarshal(b, v) }

func grepLine(s, needle string) string {
	for _, l := range strings.Split(s, "\n") {
		if strings.Contains(l, needle) {
			return l
		}
	}
	return ""
}

// runSelftest runs scripts/selftest.sh for the property and summarises which seeded changes the check catches.
// Informational: a missed mutant is a weakness of the machinery, not a violation by the tree.
func runSelftest(prop string) map[string]interface{} {
	script := filepath.Join(verifDir, "scripts", "selftest.sh")
	if _, err := os.Stat(script); err != nil {
		return nil
	}
	ctx, cancel := context.WithTimeout(context.Background(), 3*time.Hour)
	defer cancel()
	cmd := exec.CommandContext(ctx, "bash", script, prop)
	cmd.Dir = verifDir
	out, _ := cmd.CombinedOutput()
	var caught, missed, skipped []string
	for _, l := range strings.Split(string(out), "\n") {
		f := strings.Fields(l)
		if len(f) < 2 {
			continue
		}
		switch f[0] {
		case "OK":
			caught = append(caught, f[1])
		case "MISS":
			missed = append(missed, f[1])
			fmt.Printf("WARNING: seeded change %s is not caught by the check of %s\n", f[1], prop)
		case "SKIP":
			skipped = append(skipped, f[1])
		}
	}
	return map[string]interface{}{"run": len(caught) + len(missed), "caught": caught, "missed": missed, "skipped_patch_does_not_apply": skipped}
}


// checkCoverage: `coverage exported-bytes <prop>` directives. Every exported function, and every exported method of any
// type, of the declaring package that has a []byte parameter must be under a contract tagged prop that has a modifies
// clause; each one that is not becomes a failed obligation `coverage:<function>`.
func checkCoverage(w *World, prop string) []*Oblig {
	var out []*Oblig
	for _, cd := range w.C.Coverage {
		if cd.Prop != prop {
			continue
		}
		var keys []string
		for k := range w.funcs {
			keys = append(keys, k)
		}
		sort.Strings(keys)
		for _, k := range keys {
			f := w.funcs[k]
			if f.Pkg == nil || f.Pkg.Pkg.Path() != cd.Pkg || f.Parent() != nil || f.Synthetic != "" {
				continue
			}
			if !token.IsExported(f.Name()) {
				continue
			}
			takesBytes := false
			for i := 0; i < f.Signature.Params().Len(); i++ {
				t := f.Signature.Params().At(i).Type()
				if sl, ok := t.Underlying().(*types.Slice); ok {
					if b, ok2 := sl.Elem().Underlying().(*types.Basic); ok2 && b.Kind() == types.Byte {
						takesBytes = true
					}
				}
			}
			if !takesBytes {
				continue
			}
			fc := w.C.Funcs[normalizeFnKey(k)]
			ok := fc != nil && fc.HasModifies && !fc.Skip
			if ok {
				tagged := false
				for _, t := range fc.Tags {
					if t == prop {
						tagged = true
					}
				}
				ok = tagged
			}
			if !ok {
				out = append(out, &Oblig{Name: "coverage:" + f.Name(), Kind: "coverage", Fn: k, Status: "failed",
					Src: "exported function with a []byte parameter has no contract with a modifies clause tagged " + prop + " (coverage directive " + cd.File + ")"})
			}
		}
	}
	return out
}
