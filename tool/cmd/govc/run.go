package main

import (
	"fmt"
	"go/token"
	"go/types"
	"sort"
	"strconv"
	"strings"

	"golang.org/x/tools/go/ssa"
)

func unquoteGo(s string) (string, error) { return strconv.Unquote(s) }

func newEnc(w *World, fn *ssa.Function, fc *FuncContract, pass int, prev *Enc) *Enc {
	e := &Enc{W: w, fn: fn, fc: fc, pass: pass,
		declOf: map[string]string{}, vals: map[ssa.Value]Val{}, locs: map[ssa.Value]*Loc{}, names: map[string]int{},
		heapSort: map[string]string{}, reach: map[*ssa.BasicBlock]Term{}, exitSt: map[*ssa.BasicBlock]*State{},
		edgeCond: map[[2]int]Term{}, writes: map[int]map[string]bool{}, callOrd: map[string]int{}, kindOrd: map[string]int{},
		debugVars: map[string][]ssa.Value{}, closures: map[ssa.Value]*ssa.MakeClosure{}, ghostLoc: map[string]Val{},
		paramVals: map[string]Val{}, used: map[string]bool{}, typeIDs: w.typeIDs,
		atHit: map[int]bool{}, rangeOf: map[*ssa.Range]ssa.Value{}, callLog: map[string]SV{}, replayTerm: map[string]SV{}, labels: map[string]*State{}, lastRelease: map[*LockDecl]*State{}, lastAcquire: map[*LockDecl]*State{},
	}
	if fc != nil && fc.Mode == "bv" {
		e.bv = true
	}
	if prev != nil {
		// pass 2 starts with all heap names known and the per-block write sets of pass 1
		for _, n := range prev.heapOrder {
			e.heapDeclNoInit(n, prev.heapSort[n])
		}
		e.writes = prev.writes
	}
	return e
}

func (e *Enc) heapDeclNoInit(name, sort string) {
	if _, ok := e.heapSort[name]; !ok {
		e.heapSort[name] = sort
		e.heapOrder = append(e.heapOrder, name)
		e.declare(smtName(name+"@0"), sort)
	}
}

// encodeFunction runs both passes and returns the pass-2 encoder.
func encodeFunction(w *World, fn *ssa.Function, fc *FuncContract) (enc *Enc, err error) {
	defer func() {
		if r := recover(); r != nil {
			if ee, ok := r.(encErr); ok {
				err = fmt.Errorf("%s", string(ee))
				return
			}
			panic(r)
		}
	}()
	p1 := newEnc(w, fn, fc, 1, nil)
	p1.run()
	p2 := newEnc(w, fn, fc, 2, p1)
	// pass-1 write sets become read-only input
	ws := map[int]map[string]bool{}
	for k, v := range p1.writes {
		m := map[string]bool{}
		for n := range v {
			m[n] = true
		}
		ws[k] = m
	}
	p2.writes = map[int]map[string]bool{}
	p2.loopWrites = ws
	p2.run()
	return p2, nil
}

type encErr string

func (e *Enc) fail(f string, a ...interface{}) { panic(encErr(fmt.Sprintf(f, a...))) }

func (e *Enc) run() {
	f := e.fn
	if len(f.Blocks) == 0 {
		e.fail("function %s has no body", f)
	}
	e.analyseCFG()
	e.computeSites()
	e.collectDebug()
	e.init = &State{h: map[string]Term{}}
	for _, n := range e.heapOrder {
		e.init.h[n] = smtName(n + "@0")
	}
	e.cur = e.init.clone()
	e.curReach = tTrue
	e.heapDecl("$alloc", "Int")
	e.assumeG(tLt("0", e.alloc(e.init)))
	// parameters
	for _, p := range f.Params {
		e.bindParam(p, p.Name(), p.Type())
	}
	for _, fv := range f.FreeVars {
		e.bindParam(fv, fv.Name(), fv.Type())
		// a free variable is the address of a live variable cell of the enclosing function
		if pt, isPtr := fv.Type().Underlying().(*types.Pointer); isPtr {
			e.assumeG(tLt("0", e.vals[fv].T))
			if immutableCapture(f, fv) {
				// assigned once before any closure over it existed: no call changes what is read from it
				if l := e.refLoc(e.vals[fv].T, pt.Elem()); l != nil && l.Kind == lCell {
					e.privCells = append(e.privCells, privCell{heap: l.Heap, sort: fmt.Sprintf("(Array Int %s)", e.sortOf(pt.Elem())), ref: e.vals[fv].T})
				}
			}
		}
	}
	e.worldAxioms()
	e.locksAtEntry()
	e.entrySpecs()
	e.nEntryAsm = len(e.asm)
	// `at entry ghost g = e`: initial values of function-level ghosts, before the first instruction
	if len(f.Blocks) > 0 {
		e.curBlock = f.Blocks[0]
	}
	e.applyAts("entry", "", token.NoPos, nil, nil)

	order := e.topo()
	for _, b := range order {
		if b == f.Recover && b.Index != 0 {
			continue
		}
		e.enterBlock(b)
		for _, in := range b.Instrs {
			if _, isPhi := in.(*ssa.Phi); isPhi {
				continue // handled in enterBlock
			}
			e.curInstr = in
			e.exec(in)
		}
		e.curInstr = nil
		e.exitSt[b] = e.cur
	}
	e.evalReplayVals()
	// every at-clause must have found its anchor (a renamed callee or a removed statement must not pass silently)
	if e.fc != nil && e.pass == 2 {
		for ai, at := range e.fc.Ats {
			if !e.atHit[ai] && !at.Every {
				e.curReach = tTrue
				e.oblige("anchor", fmt.Sprintf("anchor:%s.%d", at.Anchor, ai), tFalse, token.NoPos, "contract anchor `at "+at.Anchor+"` matches no statement of the function")
			}
		}
	}
}

// evalReplayVals evaluates the contract's replay expressions (entry state; call results by name).
func (e *Enc) evalReplayVals() {
	if e.fc == nil || len(e.fc.ReplayVals) == 0 || e.pass != 2 {
		return
	}
	saved := e.curReach
	e.curReach = tTrue
	env := e.newSpecEnv(e.init, e.init)
	env.noLocals = true
	for _, rv := range e.fc.ReplayVals {
		e.replayTerm[rv.Name] = env.eval(rv.Expr)
	}
	e.curReach = saved
}

func (e *Enc) bindParam(v ssa.Value, name string, t types.Type) {
	c := e.fresh("p_"+name, e.sortOf(t))
	e.assumeG(e.typeFacts(c, t, e.init))
	e.vals[v] = Val{T: c}
	e.paramVals[name] = Val{T: c}
}

func (e *Enc) collectDebug() {
	e.collectDebugOf(e.fn, e.debugVars)
}

func (e *Enc) collectDebugOf(fn *ssa.Function, into map[string][]ssa.Value) {
	for _, b := range fn.Blocks {
		for _, in := range b.Instrs {
			switch in := in.(type) {
			case *ssa.DebugRef:
				if in.IsAddr {
					// X is the address of the variable
				}
				name := debugName(in)
				if name != "" {
					into[name] = append(into[name], in.X)
				}
			case *ssa.Phi:
				if in.Comment != "" {
					into[in.Comment] = append(into[in.Comment], in)
				}
				if in.Comment == "rangeint.iter" {
					// hidden counter of `for range n` (current index 0,1,2,…): nameable as rangeiter
					into["rangeiter"] = append(into["rangeiter"], in)
				}
			case *ssa.Alloc:
				if in.Comment != "" {
					into[in.Comment] = append(into[in.Comment], in)
				}
			}
		}
	}
}

func debugName(d *ssa.DebugRef) string {
	if obj := d.Object(); obj != nil {
		if v, ok := obj.(*types.Var); ok && !v.IsField() {
			return obj.Name()
		}
	}
	return ""
}

// edge returns the condition under which control goes from p to its succ b.
func (e *Enc) edge(p, b *ssa.BasicBlock) Term {
	r := e.reach[p]
	if iff, ok := p.Instrs[len(p.Instrs)-1].(*ssa.If); ok {
		if p.Succs[0] == b && p.Succs[1] == b {
			return r
		}
		c := e.val(iff.Cond).T
		if p.Succs[0] == b {
			return tAnd(r, c)
		}
		return tAnd(r, tNot(c))
	}
	return r
}

func (e *Enc) mergeStates(sts []*State, conds []Term) *State {
	if len(sts) == 1 {
		return sts[0].clone()
	}
	out := &State{h: map[string]Term{}}
	for _, name := range e.heapOrder {
		var ts []Term
		same := true
		for _, s := range sts {
			t, ok := s.h[name]
			if !ok {
				t = smtName(name + "@0")
			}
			ts = append(ts, t)
			if t != ts[0] {
				same = false
			}
		}
		if same {
			out.h[name] = ts[0]
			continue
		}
		t := ts[len(ts)-1]
		for i := len(ts) - 2; i >= 0; i-- {
			t = tIte(conds[i], ts[i], t)
		}
		c := e.fresh(name, e.heapSort[name])
		e.assumeG(tEq(c, t))
		out.h[name] = c
	}
	return out
}

func (e *Enc) enterBlock(b *ssa.BasicBlock) {
	e.curBlock = b
	if b.Index == 0 {
		e.reach[b] = tTrue
		e.curReach = tTrue
		return
	}
	var fsts []*State
	var fconds []Term
	var fidx []int
	for i, p := range b.Preds {
		if e.backEdges[[2]int{p.Index, b.Index}] {
			continue
		}
		st, ok := e.exitSt[p]
		if !ok {
			continue // unreachable predecessor
		}
		fsts = append(fsts, st)
		fconds = append(fconds, e.edge(p, b))
		fidx = append(fidx, i)
	}
	if len(fsts) == 0 {
		// unreachable block
		e.reach[b] = tFalse
		e.curReach = tFalse
		e.cur = e.init.clone()
		for _, in := range b.Instrs {
			if phi, ok := in.(*ssa.Phi); ok {
				e.vals[phi] = Val{T: e.fresh("phi_"+phi.Name(), e.sortOf(phi.Type()))}
			}
		}
		return
	}
	r := e.fresh(fmt.Sprintf("reach_b%d", b.Index), "Bool")
	e.assumeG(tEq(r, tOr(fconds...)))
	e.reach[b] = r
	e.curReach = r
	e.cur = e.mergeStates(fsts, fconds)
	// phi values from forward edges
	phiFwd := map[*ssa.Phi]Val{}
	var phis []*ssa.Phi
	for _, in := range b.Instrs {
		phi, ok := in.(*ssa.Phi)
		if !ok {
			break
		}
		phis = append(phis, phi)
		var t Term
		for k := len(fidx) - 1; k >= 0; k-- {
			v := e.val(phi.Edges[fidx[k]]).T
			if k == len(fidx)-1 {
				t = v
			} else {
				t = tIte(fconds[k], v, t)
			}
		}
		phiFwd[phi] = Val{T: t}
	}
	li := e.loops[b]
	if li == nil {
		for _, phi := range phis {
			t := phiFwd[phi].T
			c := e.fresh("phi_"+phiName(phi), e.sortOf(phi.Type()))
			e.assumeG(tEq(c, t))
			e.vals[phi] = Val{T: c}
		}
		return
	}
	// ---- loop header ----
	ls := e.loopSpec(li.ord)
	// 1. invariant holds on entry
	env := e.newSpecEnv(e.cur, e.init)
	env.phiSubst = phiFwd
	env.atBlock = b
	for i, cl := range ls.Invs {
		g := env.evalBool(cl.Expr)
		o := e.oblige("inv_entry", fmt.Sprintf("inv_entry:loop%d.%d", li.ord, i), g, token.NoPos, cl.Src)
		o.setMeta(cl.Label, token.Position{Filename: cl.File, Line: cl.Line})
	}
	// 2. havoc what the loop modifies
	mod := e.loopModset(li)
	pre := e.cur
	e.cur = pre.clone()
	for _, name := range mod {
		srt, ok := e.heapSort[name]
		if !ok {
			continue
		}
		c := e.fresh(name+"_loop", srt)
		e.cur.h[name] = c
	}
	if a0, a1 := pre.h["$alloc"], e.cur.h["$alloc"]; a0 != a1 && a1 != "" {
		if a0 == "" {
			a0 = smtName("$alloc@0")
		}
		e.assume(tLe(a0, a1))
	}
	for _, phi := range phis {
		c := e.fresh("phi_"+phiName(phi), e.sortOf(phi.Type()))
		e.vals[phi] = Val{T: c}
		e.assume(e.typeFacts(c, phi.Type(), e.cur))
	}
	e.assumeFrameSince(pre, mod)
	env2 := e.newSpecEnv(e.cur, e.init)
	env2.atBlock = b
	for _, cl := range ls.Invs {
		e.assume(env2.evalBool(cl.Expr))
	}
	if ls.Decreases != nil {
		d := env2.evalInt(ls.Decreases.Expr)
		li.variantAtHead = e.define(fmt.Sprintf("variant_loop%d", li.ord), "Int", d)
	}
}

func phiName(p *ssa.Phi) string {
	if p.Comment != "" {
		return p.Comment
	}
	return p.Name()
}

func (e *Enc) loopSpec(ord int) *LoopSpec {
	if e.fc != nil {
		if ls, ok := e.fc.Loops[ord]; ok {
			return ls
		}
	}
	return &LoopSpec{}
}

func (e *Enc) loopModset(li *loopInfo) []string {
	src := e.loopWrites
	if src == nil {
		src = e.writes
	}
	set := map[string]bool{}
	all := false
	for bi := range li.blocks {
		for n := range src[bi] {
			if n == "*" {
				all = true
			}
			set[n] = true
		}
	}
	if all || e.pass == 1 {
		// pass 1 does not know the write sets yet: havoc everything known so far. An unknown call ("*") cannot
		// touch lock state, function-level ghosts or defer flags: those are havocked only if written explicitly.
		for _, n := range e.heapOrder {
			if e.pass == 2 && (n == "$held" || strings.HasPrefix(n, "$g$") || strings.HasPrefix(n, "$defer")) {
				continue
			}
			set[n] = true
		}
	}
	delete(set, "*")
	var out []string
	for n := range set {
		out = append(out, n)
	}
	sort.Strings(out)
	return out
}

// backEdgeChecks emits invariant-preservation and variant obligations for back edges leaving block b.
func (e *Enc) backEdgeChecks(b *ssa.BasicBlock) {
	for _, h := range b.Succs {
		if !e.backEdges[[2]int{b.Index, h.Index}] {
			continue
		}
		li := e.loops[h]
		ls := e.loopSpec(li.ord)
		cond := e.edge(b, h)
		saved := e.curReach
		e.loopCovers = append(e.loopCovers, retPoint{reach: cond, nAsm: len(e.asm)})
		e.loopCoverNames = append(e.loopCoverNames, fmt.Sprintf("cover:loop%d@b%d", li.ord, b.Index))
		e.curReach = cond
		sub := map[*ssa.Phi]Val{}
		pi := -1
		for i, p := range h.Preds {
			if p == b {
				pi = i
			}
		}
		for _, in := range h.Instrs {
			phi, ok := in.(*ssa.Phi)
			if !ok {
				break
			}
			sub[phi] = e.val(phi.Edges[pi])
		}
		env := e.newSpecEnv(e.cur, e.init)
		env.phiSubst = sub
		env.atBlock = h
		nAsm := len(e.asm)
		for i, cl := range ls.Invs {
			g := env.evalBool(cl.Expr)
			o := e.oblige("inv_preserve", fmt.Sprintf("inv_preserve:loop%d.%d@b%d", li.ord, i, b.Index), g, token.NoPos, cl.Src)
			o.setMeta(cl.Label, token.Position{Filename: cl.File, Line: cl.Line})
		}
		if ls.Decreases != nil && li.variantAtHead != "" {
			d := env.evalInt(ls.Decreases.Expr)
			g := tAnd(tLt(d, li.variantAtHead), tLe("0", li.variantAtHead))
			o := e.oblige("variant", fmt.Sprintf("variant:loop%d@b%d", li.ord, b.Index), g, token.NoPos, ls.Decreases.Src)
			o.setMeta("", token.Position{Filename: ls.Decreases.File, Line: ls.Decreases.Line})
		}
		_ = nAsm
		e.curReach = saved
	}
}

// worldAxioms emits package-level axioms: sentinel errors are distinct non-nil constants, user axioms, pure funcs.
func (e *Enc) worldAxioms() {
	for _, s := range e.W.C.SMT {
		e.decls = append(e.decls, s)
	}
}

func (e *Enc) describe() string {
	var sb strings.Builder
	for _, o := range e.obls {
		fmt.Fprintf(&sb, "%s %s\n", o.Name, o.Status)
	}
	return sb.String()
}

// siteKey classifies an instruction for ordinal numbering ("k-th call to Read", "k-th store to readers", ...).
func (e *Enc) siteKey(in ssa.Instruction) (string, bool) {
	switch in := in.(type) {
	case *ssa.Call:
		if _, ok := in.Call.Value.(*ssa.Builtin); ok && !in.Call.IsInvoke() {
			if in.Call.Value.Name() == "close" {
				return "close ", true
			}
			if in.Call.Value.Name() == "delete" {
				return "mapdelete ", true
			}
			return "", false
		}
		_, short, _, _ := calleeName(in.Common())
		return "call " + short, true
	case *ssa.Defer:
		_, short, _, _ := calleeName(in.Common())
		return "call " + short, true
	case *ssa.Go:
		return "go ", true
	case *ssa.Store:
		return "store " + e.storeTargetName(in), true
	case *ssa.Return:
		return "return ", true
	case *ssa.Send:
		return "send ", true
	case *ssa.Select:
		return "select ", true
	case *ssa.MapUpdate:
		return "mapupdate ", true
	case *ssa.Next:
		return "next ", true
	case *ssa.UnOp:
		if in.Op == token.ARROW {
			return "recv ", true
		}
		if in.Op == token.MUL {
			// a load of a struct field: `at [every] load <field>`
			if fa, ok := in.X.(*ssa.FieldAddr); ok {
				if st, ok2 := fa.X.Type().Underlying().(*types.Pointer).Elem().Underlying().(*types.Struct); ok2 {
					return "load " + st.Field(fa.Field).Name(), true
				}
			}
		}
	}
	return "", false
}

// computeSites numbers anchor sites in source order (position, then block/instruction index).
func (e *Enc) computeSites() {
	type site struct {
		in       ssa.Instruction
		path     sitePath
		blk, idx int
	}
	groups := map[string][]site{}
	add := func(in ssa.Instruction, path sitePath, blk, idx int, inlined bool) {
		if k, ok := e.siteKey(in); ok && !(inlined && k == "return ") {
			groups[k] = append(groups[k], site{in, path, blk, idx})
		}
		// sends / receives qualified by the channel's field or variable name ("send respCh#0") get their own numbering:
		// stable when sends on other channels are added, removed or moved
		if cn := chanOperandName(in); cn != "" {
			k := "fchan " + cn
			groups[k] = append(groups[k], site{in, path, blk, idx})
		}
		// package-qualified callee names ("call hmac.New#0") get their own numbering
		var c *ssa.CallCommon
		switch in := in.(type) {
		case *ssa.Call:
			c = in.Common()
		case *ssa.Defer:
			c = in.Common()
		}
		if c == nil || c.IsInvoke() {
			return
		}
		if f := c.StaticCallee(); f != nil && f.Pkg != nil && f.Signature.Recv() == nil {
			k := "qcall " + f.Pkg.Pkg.Name() + "." + f.Name()
			groups[k] = append(groups[k], site{in, path, blk, idx})
		}
	}
	for _, b := range e.fn.Blocks {
		for i, in := range b.Instrs {
			add(in, sitePath{in.Pos()}, b.Index, i, false)
			// the sites of a helper that is executed in place count at the position of the call
			if call, ok := in.(*ssa.Call); ok {
				if g := e.inlineTargetStatic(call.Common(), nil); g != nil {
					bi, ii := b.Index, i
					e.inlineSites(g, sitePath{in.Pos()}, nil, func(x ssa.Instruction, path sitePath, _, _ int) {
						add(x, path, bi, ii, true)
					})
				}
			}
		}
	}
	e.siteOrd = map[ssa.Instruction]int{}
	e.siteOrdQ = map[ssa.Instruction]int{}
	e.siteOrdF = map[ssa.Instruction]int{}
	for gk, g := range groups {
		sort.SliceStable(g, func(i, j int) bool {
			if less, decided := lessPath(g[i].path, g[j].path); decided {
				return less
			}
			if len(g[i].path) != len(g[j].path) {
				return len(g[i].path) < len(g[j].path)
			}
			if g[i].blk != g[j].blk {
				return g[i].blk < g[j].blk
			}
			return g[i].idx < g[j].idx
		})
		for n, s := range g {
			if strings.HasPrefix(gk, "qcall ") {
				e.siteOrdQ[s.in] = n
			} else if strings.HasPrefix(gk, "fchan ") {
				e.siteOrdF[s.in] = n
			} else {
				e.siteOrd[s.in] = n
			}
		}
	}
}

// chanOperandName: "send respCh" / "recv closeCh": the kind of a channel operation together with the name of the field,
// variable or parameter the channel is read from ("" when the operand has no such name).
func chanOperandName(in ssa.Instruction) string {
	var ch ssa.Value
	kind := ""
	switch in := in.(type) {
	case *ssa.Send:
		ch, kind = in.Chan, "send"
	case *ssa.UnOp:
		if in.Op == token.ARROW {
			ch, kind = in.X, "recv"
		}
	}
	if ch == nil {
		return ""
	}
	n := valueName(ch)
	if n == "" {
		return ""
	}
	return kind + " " + n
}

// valueName: the field / variable / parameter name a value is read from.
func valueName(v ssa.Value) string {
	switch v := v.(type) {
	case *ssa.Parameter:
		return v.Name()
	case *ssa.FreeVar:
		return v.Name()
	case *ssa.ChangeType:
		return valueName(v.X)
	case *ssa.MakeInterface:
		return valueName(v.X)
	case *ssa.UnOp:
		if v.Op != token.MUL {
			return ""
		}
		switch a := v.X.(type) {
		case *ssa.FieldAddr:
			if pt, ok := a.X.Type().Underlying().(*types.Pointer); ok {
				if st, ok := pt.Elem().Underlying().(*types.Struct); ok {
					return st.Field(a.Field).Name()
				}
			}
		case *ssa.Alloc:
			return a.Comment
		case *ssa.Global:
			return a.Name()
		case *ssa.FreeVar:
			return a.Name()
		}
	case *ssa.Field:
		if st, ok := v.X.Type().Underlying().(*types.Struct); ok {
			return st.Field(v.Field).Name()
		}
	}
	return ""
}

func (e *Enc) siteOrdinal(in ssa.Instruction, kind, name string) int {
	if in == nil {
		return -1
	}
	if n, ok := e.siteOrd[in]; ok {
		return n
	}
	return -1
}
