package main

import (
	"bufio"
	"fmt"
	"os"
	"path/filepath"
	"regexp"
	"sort"
	"strconv"
	"strings"
)

type Clause struct {
	Label string
	Expr  SExpr
	Src   string
	File  string
	Line  int
}

type LoopSpec struct {
	Invs      []Clause
	Decreases *Clause
}

type AtSpec struct {
	Anchor string // e.g. "call Read#0", "return#1"
	Every  bool   // "at every send ...": applies to each occurrence, zero occurrences allowed
	Kind   string // ghost | assert | assume
	Target string // for ghost: assignment target (spec lvalue source)
	TExpr  SExpr
	Clause Clause
}

type GhostDecl struct {
	Name string
	Sort string
}

type FuncContract struct {
	Key         string
	File        string
	Line        int
	Tags        []string
	Mode        string // int | bv
	Requires    []Clause
	Ensures     []Clause
	Modifies    []Clause
	HasModifies bool
	Loops       map[int]*LoopSpec
	Ats         []AtSpec
	Ghosts      []GhostDecl
	Trusted     bool // library spec: assumed, never verified
	Pure        bool
	Panics      []Clause // documented panics: "panics when <cond>"
	NoReturn    bool
	Params      []string // optional parameter renaming (libspec)
	Results     []string // optional result names
	Skip        bool     // under contract for callers only (body not verified); listed as assumed
	Sweep       bool     // annotation-free safety sweep only
	Refines     []string // keys of interface-method libspecs this method has to satisfy (behavioural subtyping)
	Opts        map[string]string
	ReplayTmpl  string
	ReplayVals  []ReplayVal
	IntRequires []Clause // bv-mode function: precondition as seen by int-mode callers
	IntEnsures  []Clause // bv-mode function: postcondition as seen by int-mode callers (bridging assumption)
}

type ReplayVal struct {
	Name string
	Expr SExpr
	Src  string
}

type TypeContract struct {
	Key    string
	File   string
	Ghosts []GhostDecl
	Invs   []Clause
	Opts   map[string]string
	Locks  []*LockDecl
	Sent   []Clause // `sent <expr over self>`: proved of every *T sent on a channel, assumed of every *T received
}

// LockDecl: `lock <mutex field> protects f1 f2 …` and `lockinv <mutex field> <expr over self>`.
type LockDecl struct {
	Field    string
	Protects []string
	Invs     []Clause
	Pkg      string   // for package-level locks: the package path
	Rely     []Clause // two-state relation (old() = earlier state): guaranteed by every write section, assumed on re-acquisition
}

func (t *TypeContract) lockDecl(field string) *LockDecl {
	for _, l := range t.Locks {
		if l.Field == field {
			return l
		}
	}
	return nil
}

// lockOf returns the lock declaration that protects the given field, if any.
func (t *TypeContract) lockOf(field string) *LockDecl {
	for _, l := range t.Locks {
		for _, p := range l.Protects {
			if p == field {
				return l
			}
		}
	}
	return nil
}

type PureFunc struct {
	Name   string
	Params []QVar
	Sort   string
	Body   SExpr // may be nil (declared only; defined in SMT prelude)
	Src    string
}

type Contracts struct {
	Funcs       map[string]*FuncContract
	Types       map[string]*TypeContract
	Pures       map[string]*PureFunc
	GhostVar    map[string]GhostDecl // package-level ghost state
	Axioms      []Clause
	Lemmas      []Clause
	IfaceGh     map[string]GhostDecl // ghost fields on interface values (by field name)
	Files       []string
	GlobalLocks map[string]*LockDecl // package-level mutex variable (full name) -> declaration
	LoadErrors  []loadError
	Assumes     []string          // free-text assumptions declared in spec files
	AssumeFile  map[string]string // assumption text -> declaring file
	SMT         []string          // raw SMT prelude chunks
	Coverage    []CoverageDecl    // "coverage exported-bytes C17": scope of a property stated over the package, not over tags
}

// CoverageDecl: every exported function or method of package Pkg that takes a []byte parameter must carry a contract
// with a modifies clause tagged Prop (the property quantifies over "every exported function", so a function added without
// a contract must not go unnoticed).
type CoverageDecl struct {
	Pkg, Kind, Prop string
	File            string
	Line            int
}

func newContracts() *Contracts {
	return &Contracts{
		Funcs: map[string]*FuncContract{}, Types: map[string]*TypeContract{}, Pures: map[string]*PureFunc{},
		GhostVar: map[string]GhostDecl{}, IfaceGh: map[string]GhostDecl{}, GlobalLocks: map[string]*LockDecl{},
	}
}

var clauseKeywords = map[string]bool{
	"func": true, "type": true, "tags": true, "mode": true, "requires": true, "modifies": true, "ensures": true,
	"loop": true, "at": true, "ghost": true, "invariant": true, "pure": true, "axiom": true, "lemma": true,
	"trusted": true, "panics": true, "noreturn": true, "params": true, "results": true, "skip": true, "sweep": true, "refines": true, "coverage": true, "sent": true,
	"ifaceghost": true, "assume-text": true, "opt": true, "smt": true, "replay": true, "intview": true, "lock": true, "lockinv": true, "rely": true, "globallock": true, "globallockinv": true,
}

var labelRe = regexp.MustCompile(`^\[([A-Za-z0-9_.\-+]+)\]\s*`)

// qualify turns a contract key relative to pkg into the canonical key used by go/ssa's
// Function.String(): "pkg.F", "(*pkg.T).M", "(pkg.T).M".
func qualifyKey(key, pkg string) string {
	if pkg == "" {
		return key
	}
	if strings.HasPrefix(key, "(") {
		end := strings.Index(key, ")")
		if end < 0 {
			return key
		}
		recv := key[1:end]
		rest := key[end+1:]
		star := ""
		if strings.HasPrefix(recv, "*") {
			star = "*"
			recv = recv[1:]
		}
		if !strings.Contains(recv, ".") {
			recv = pkg + "." + recv
		}
		return "(" + star + recv + ")" + rest
	}
	if !strings.Contains(key, ".") {
		return pkg + "." + key
	}
	// "Outer$1" has no dot; "T.x"? treat names with dot as qualified already
	return key
}

func (c *Contracts) loadFile(path, pkg string, trusted bool) error {
	f, err := os.Open(path)
	if err != nil {
		return err
	}
	defer f.Close()
	c.Files = append(c.Files, path)
	sc := bufio.NewScanner(f)
	sc.Buffer(make([]byte, 1<<20), 1<<20)
	type rawClause struct {
		kw, text string
		line     int
	}
	var clauses []rawClause
	ln := 0
	for sc.Scan() {
		ln++
		line := sc.Text()
		t := strings.TrimSpace(line)
		var body string
		if strings.HasPrefix(t, "//@") {
			body = strings.TrimSpace(t[3:])
		} else if strings.HasSuffix(path, ".spec") {
			if strings.HasPrefix(t, "#") || strings.HasPrefix(t, "//") {
				continue
			}
			body = t
		} else {
			continue
		}
		if body == "" {
			continue
		}
		// strip trailing "// comment" (not inside strings)
		if i := commentStart(body); i >= 0 {
			body = strings.TrimSpace(body[:i])
			if body == "" {
				continue
			}
		}
		first := body
		if i := strings.IndexAny(body, " \t"); i >= 0 {
			first = body[:i]
		}
		if clauseKeywords[first] {
			clauses = append(clauses, rawClause{first, strings.TrimSpace(body[len(first):]), ln})
		} else if len(clauses) > 0 {
			clauses[len(clauses)-1].text += " " + body
		} else {
			return fmt.Errorf("%s:%d: text before any clause", path, ln)
		}
	}
	var curF *FuncContract
	var curT *TypeContract
	mkClause := func(text string, line int) (Clause, error) {
		cl := Clause{Src: text, File: path, Line: line}
		if m := labelRe.FindStringSubmatch(text); m != nil {
			cl.Label = m[1]
			text = text[len(m[0]):]
		}
		e, err := parseSpec(text)
		if err != nil {
			return cl, fmt.Errorf("%s:%d: %v", path, line, err)
		}
		cl.Expr = e
		return cl, nil
	}
	for _, rc := range clauses {
		switch rc.kw {
		case "func":
			key := normalizeFnKey(qualifyKey(strings.TrimSpace(rc.text), pkg))
			if prev, dup := c.Funcs[key]; dup {
				if !trusted {
					return fmt.Errorf("%s:%d: duplicate contract for %s", path, rc.line, key)
				}
				// duplicate assumed contract: the first one (files in alphabetical order) wins; the clauses of this
				// block are parsed into a scratch contract and dropped
				c.LoadErrors = append(c.LoadErrors, loadError{Pkg: "libspec", Err: fmt.Sprintf("%s:%d: duplicate assumed contract for %s ignored (first: %s:%d)", path, rc.line, key, prev.File, prev.Line)})
				curF = &FuncContract{Key: key, File: path, Line: rc.line, Loops: map[int]*LoopSpec{}, Trusted: trusted, Opts: map[string]string{}}
				curT = nil
				continue
			}
			curF = &FuncContract{Key: key, File: path, Line: rc.line, Loops: map[int]*LoopSpec{}, Trusted: trusted, Opts: map[string]string{}}
			c.Funcs[key] = curF
			curT = nil
		case "type":
			key := strings.TrimSpace(rc.text)
			if pkg != "" && !strings.Contains(key, ".") {
				key = pkg + "." + key
			}
			curT = c.Types[key]
			if curT == nil {
				curT = &TypeContract{Key: key, File: path, Opts: map[string]string{}}
				c.Types[key] = curT
			}
			curF = nil
		case "tags":
			if curF == nil {
				return fmt.Errorf("%s:%d: tags outside func", path, rc.line)
			}
			curF.Tags = append(curF.Tags, strings.Fields(rc.text)...)
		case "mode":
			curF.Mode = strings.TrimSpace(rc.text)
		case "trusted":
			curF.Trusted = true
		case "pure":
			if strings.HasPrefix(rc.text, "func ") {
				pf, err := parsePureFunc(rc.text[5:])
				if err != nil {
					return fmt.Errorf("%s:%d: %v", path, rc.line, err)
				}
				c.Pures[pf.Name] = pf
			} else if curF != nil {
				curF.Pure = true
				curF.HasModifies = true
			}
		case "noreturn":
			curF.NoReturn = true
		case "skip":
			curF.Skip = true
		case "sent":
			if curT == nil {
				return fmt.Errorf("%s:%d: sent outside type", path, rc.line)
			}
			cl, err := mkClause(rc.text, rc.line)
			if err != nil {
				return err
			}
			curT.Sent = append(curT.Sent, cl)
		case "coverage":
			fs := strings.Fields(rc.text)
			if len(fs) != 2 || fs[0] != "exported-bytes" {
				return fmt.Errorf("%s:%d: coverage exported-bytes <property>", path, rc.line)
			}
			c.Coverage = append(c.Coverage, CoverageDecl{Pkg: pkg, Kind: fs[0], Prop: fs[1], File: path, Line: rc.line})
		case "sweep":
			curF.Sweep = true
		case "refines":
			if curF == nil {
				return fmt.Errorf("%s:%d: refines outside func", path, rc.line)
			}
			curF.Refines = append(curF.Refines, strings.TrimSpace(rc.text))
		case "opt":
			kv := strings.SplitN(rc.text, "=", 2)
			v := "true"
			if len(kv) == 2 {
				v = strings.TrimSpace(kv[1])
			}
			if curF != nil {
				curF.Opts[strings.TrimSpace(kv[0])] = v
			} else if curT != nil {
				curT.Opts[strings.TrimSpace(kv[0])] = v
			}
		case "params":
			curF.Params = splitNames(rc.text)
		case "results":
			curF.Results = splitNames(rc.text)
		case "requires", "ensures", "panics":
			if curF == nil {
				return fmt.Errorf("%s:%d: %s outside func", path, rc.line, rc.kw)
			}
			text := rc.text
			if rc.kw == "panics" {
				text = strings.TrimSpace(strings.TrimPrefix(text, "when"))
			}
			cl, err := mkClause(text, rc.line)
			if err != nil {
				return err
			}
			switch rc.kw {
			case "requires":
				curF.Requires = append(curF.Requires, cl)
			case "ensures":
				curF.Ensures = append(curF.Ensures, cl)
			case "panics":
				curF.Panics = append(curF.Panics, cl)
			}
		case "modifies":
			if curF == nil {
				return fmt.Errorf("%s:%d: modifies outside func", path, rc.line)
			}
			curF.HasModifies = true
			for _, item := range splitTop(rc.text, ',') {
				item = strings.TrimSpace(item)
				if item == "" || item == "nothing" {
					continue
				}
				cl, err := mkClause(item, rc.line)
				if err != nil {
					return err
				}
				curF.Modifies = append(curF.Modifies, cl)
			}
		case "invariant":
			if curT == nil {
				return fmt.Errorf("%s:%d: invariant outside type", path, rc.line)
			}
			cl, err := mkClause(rc.text, rc.line)
			if err != nil {
				return err
			}
			curT.Invs = append(curT.Invs, cl)
		case "ghost":
			// "ghost name sort" (in type / func) or "ghost var name sort" (package level)
			fs := strings.Fields(rc.text)
			if len(fs) >= 3 && fs[0] == "var" {
				c.GhostVar[fs[1]] = GhostDecl{fs[1], strings.Join(fs[2:], " ")}
				continue
			}
			if len(fs) < 2 {
				return fmt.Errorf("%s:%d: bad ghost declaration", path, rc.line)
			}
			gd := GhostDecl{fs[0], strings.Join(fs[1:], " ")}
			if curT != nil {
				curT.Ghosts = append(curT.Ghosts, gd)
			} else if curF != nil {
				curF.Ghosts = append(curF.Ghosts, gd)
			} else {
				return fmt.Errorf("%s:%d: ghost outside func/type", path, rc.line)
			}
		case "ifaceghost":
			fs := strings.Fields(rc.text)
			if len(fs) < 2 {
				return fmt.Errorf("%s:%d: bad ifaceghost", path, rc.line)
			}
			c.IfaceGh[fs[0]] = GhostDecl{fs[0], strings.Join(fs[1:], " ")}
		case "loop":
			if curF == nil {
				return fmt.Errorf("%s:%d: loop outside func", path, rc.line)
			}
			fs := strings.SplitN(rc.text, " ", 3)
			if len(fs) < 3 {
				return fmt.Errorf("%s:%d: bad loop clause", path, rc.line)
			}
			k, err := strconv.Atoi(fs[0])
			if err != nil {
				return fmt.Errorf("%s:%d: bad loop ordinal", path, rc.line)
			}
			ls := curF.Loops[k]
			if ls == nil {
				ls = &LoopSpec{}
				curF.Loops[k] = ls
			}
			cl, err := mkClause(fs[2], rc.line)
			if err != nil {
				return err
			}
			switch fs[1] {
			case "invariant":
				ls.Invs = append(ls.Invs, cl)
			case "decreases":
				ls.Decreases = &cl
			default:
				return fmt.Errorf("%s:%d: bad loop clause kind %q", path, rc.line, fs[1])
			}
		case "at":
			if curF == nil {
				return fmt.Errorf("%s:%d: at outside func", path, rc.line)
			}
			// at <anchor words> (ghost <lhs> = <expr> | assert <expr> | assume <expr>)
			if lm := regexp.MustCompile(`^(.*?)\s+label\s+([A-Za-z_][A-Za-z0-9_]*)$`).FindStringSubmatch(rc.text); lm != nil {
				curF.Ats = append(curF.Ats, AtSpec{Anchor: strings.ReplaceAll(strings.Join(strings.Fields(lm[1]), " "), " #", "#"), Kind: "label", Target: lm[2]})
				continue
			}
			m := regexp.MustCompile(`^(.*?)\s+(ghost|assert|assume)\s+(.*)$`).FindStringSubmatch(rc.text)
			if m == nil {
				return fmt.Errorf("%s:%d: bad at clause", path, rc.line)
			}
			as := AtSpec{Anchor: strings.ReplaceAll(strings.Join(strings.Fields(m[1]), " "), " #", "#"), Kind: m[2]}
			if strings.HasPrefix(as.Anchor, "every ") {
				as.Anchor = strings.TrimPrefix(as.Anchor, "every ")
				as.Every = true
				if strings.Contains(as.Anchor, "#") {
					return fmt.Errorf("%s:%d: `at every` takes an anchor without ordinal", path, rc.line)
				}
				// zero occurrences are fine for `every`, a misspelt anchor kind is not
				kind := strings.TrimPrefix(as.Anchor, "before ")
				if f := strings.Fields(kind); len(f) == 0 || !map[string]bool{"call": true, "send": true, "recv": true, "close": true, "mapupdate": true, "mapdelete": true, "return": true, "go": true, "store": true, "load": true, "select": true, "next": true, "entry": true}[f[0]] {
					return fmt.Errorf("%s:%d: unknown anchor kind in `at every %s`", path, rc.line, as.Anchor)
				}
				if strings.HasPrefix(as.Anchor, "before ") && !map[string]bool{"call": true, "send": true, "recv": true, "close": true, "mapupdate": true, "mapdelete": true, "go": true}[strings.Fields(kind)[0]] {
					return fmt.Errorf("%s:%d: `before` is not available for anchor kind %s", path, rc.line, kind)
				}
			}
			rest := m[3]
			if as.Kind == "ghost" {
				i := indexTopAssign(rest)
				if i < 0 {
					return fmt.Errorf("%s:%d: ghost update needs '='", path, rc.line)
				}
				as.Target = strings.TrimSpace(rest[:i])
				te, err := parseSpec(as.Target)
				if err != nil {
					return fmt.Errorf("%s:%d: %v", path, rc.line, err)
				}
				as.TExpr = te
				rest = strings.TrimSpace(rest[i+1:])
			}
			cl, err := mkClause(rest, rc.line)
			if err != nil {
				return err
			}
			as.Clause = cl
			curF.Ats = append(curF.Ats, as)
		case "axiom", "lemma":
			cl, err := mkClause(rc.text, rc.line)
			if err != nil {
				return err
			}
			if rc.kw == "axiom" {
				c.Axioms = append(c.Axioms, cl)
			} else {
				c.Lemmas = append(c.Lemmas, cl)
			}
		case "lock":
			if curT == nil {
				return fmt.Errorf("%s:%d: lock outside type", path, rc.line)
			}
			fs := strings.Fields(rc.text)
			if len(fs) < 3 || fs[1] != "protects" {
				return fmt.Errorf("%s:%d: lock <field> protects <fields…>", path, rc.line)
			}
			curT.Locks = append(curT.Locks, &LockDecl{Field: fs[0], Protects: fs[2:]})
		case "lockinv":
			if curT == nil {
				return fmt.Errorf("%s:%d: lockinv outside type", path, rc.line)
			}
			fs := strings.SplitN(rc.text, " ", 2)
			if len(fs) < 2 {
				return fmt.Errorf("%s:%d: lockinv <field> <expr>", path, rc.line)
			}
			ld := curT.lockDecl(fs[0])
			if ld == nil {
				return fmt.Errorf("%s:%d: lockinv for undeclared lock %s", path, rc.line, fs[0])
			}
			cl, err := mkClause(strings.TrimSpace(fs[1]), rc.line)
			if err != nil {
				return err
			}
			ld.Invs = append(ld.Invs, cl)
		case "globallock":
			fs := strings.Fields(rc.text)
			if len(fs) < 3 || fs[1] != "protects" {
				return fmt.Errorf("%s:%d: globallock <mutex var> protects <vars…>", path, rc.line)
			}
			c.GlobalLocks[pkg+"."+fs[0]] = &LockDecl{Field: fs[0], Protects: fs[2:], Pkg: pkg}
		case "globallockinv":
			fs := strings.SplitN(rc.text, " ", 2)
			if len(fs) < 2 {
				return fmt.Errorf("%s:%d: globallockinv <mutex var> <expr>", path, rc.line)
			}
			ld := c.GlobalLocks[pkg+"."+fs[0]]
			if ld == nil {
				return fmt.Errorf("%s:%d: globallockinv for undeclared lock %s", path, rc.line, fs[0])
			}
			cl, err := mkClause(strings.TrimSpace(fs[1]), rc.line)
			if err != nil {
				return err
			}
			ld.Invs = append(ld.Invs, cl)
		case "rely":
			if curT == nil {
				return fmt.Errorf("%s:%d: rely outside type", path, rc.line)
			}
			fs := strings.SplitN(rc.text, " ", 2)
			if len(fs) < 2 {
				return fmt.Errorf("%s:%d: rely <lockfield> <two-state expr>", path, rc.line)
			}
			ld := curT.lockDecl(fs[0])
			if ld == nil {
				return fmt.Errorf("%s:%d: rely for undeclared lock %s", path, rc.line, fs[0])
			}
			cl, err := mkClause(strings.TrimSpace(fs[1]), rc.line)
			if err != nil {
				return err
			}
			ld.Rely = append(ld.Rely, cl)
		case "intview":
			if curF == nil {
				return fmt.Errorf("%s:%d: intview outside func", path, rc.line)
			}
			fs := strings.SplitN(rc.text, " ", 2)
			if len(fs) < 2 || (fs[0] != "requires" && fs[0] != "ensures") {
				return fmt.Errorf("%s:%d: intview requires|ensures <expr>", path, rc.line)
			}
			cl, err := mkClause(strings.TrimSpace(fs[1]), rc.line)
			if err != nil {
				return err
			}
			if fs[0] == "requires" {
				curF.IntRequires = append(curF.IntRequires, cl)
			} else {
				curF.IntEnsures = append(curF.IntEnsures, cl)
			}
		case "replay":
			if curF == nil {
				return fmt.Errorf("%s:%d: replay outside func", path, rc.line)
			}
			fs := strings.SplitN(rc.text, " ", 2)
			if len(fs) < 2 {
				return fmt.Errorf("%s:%d: bad replay clause", path, rc.line)
			}
			switch fs[0] {
			case "template":
				curF.ReplayTmpl = strings.TrimSpace(fs[1])
			case "val":
				i := indexTopAssign(fs[1])
				if i < 0 {
					return fmt.Errorf("%s:%d: replay val needs '='", path, rc.line)
				}
				ex, err := parseSpec(strings.TrimSpace(fs[1][i+1:]))
				if err != nil {
					return fmt.Errorf("%s:%d: %v", path, rc.line, err)
				}
				curF.ReplayVals = append(curF.ReplayVals, ReplayVal{Name: strings.TrimSpace(fs[1][:i]), Expr: ex, Src: fs[1]})
			default:
				return fmt.Errorf("%s:%d: bad replay clause", path, rc.line)
			}
		case "assume-text":
			c.Assumes = append(c.Assumes, rc.text)
			if c.AssumeFile == nil {
				c.AssumeFile = map[string]string{}
			}
			c.AssumeFile[rc.text] = path
		case "smt":
			c.SMT = append(c.SMT, rc.text)
		}
	}
	return nil
}

func commentStart(s string) int {
	inStr := false
	for i := 0; i+1 < len(s); i++ {
		if s[i] == '"' && (i == 0 || s[i-1] != '\\') {
			inStr = !inStr
		}
		if !inStr && s[i] == '/' && s[i+1] == '/' {
			return i
		}
	}
	return -1
}

func indexTopAssign(s string) int {
	depth := 0
	for i := 0; i < len(s); i++ {
		switch s[i] {
		case '(', '[':
			depth++
		case ')', ']':
			depth--
		case '=':
			if depth == 0 && (i+1 >= len(s) || s[i+1] != '=') && (i == 0 || !strings.ContainsRune("=!<>", rune(s[i-1]))) {
				return i
			}
		}
	}
	return -1
}

func splitNames(s string) []string {
	var out []string
	for _, f := range strings.FieldsFunc(s, func(r rune) bool { return r == ',' || r == ' ' }) {
		out = append(out, f)
	}
	return out
}

func splitTop(s string, sep byte) []string {
	var out []string
	depth := 0
	last := 0
	for i := 0; i < len(s); i++ {
		switch s[i] {
		case '(', '[':
			depth++
		case ')', ']':
			depth--
		default:
			if s[i] == sep && depth == 0 {
				out = append(out, s[last:i])
				last = i + 1
			}
		}
	}
	out = append(out, s[last:])
	return out
}

// parsePureFunc parses "name(a int, b int) sort [= expr]".
func parsePureFunc(s string) (*PureFunc, error) {
	lp := strings.Index(s, "(")
	if lp < 0 {
		return nil, fmt.Errorf("bad pure func %q", s)
	}
	depth := 0
	rp := -1
	for i := lp; i < len(s); i++ {
		if s[i] == '(' {
			depth++
		} else if s[i] == ')' {
			depth--
			if depth == 0 {
				rp = i
				break
			}
		}
	}
	if rp < 0 {
		return nil, fmt.Errorf("bad pure func %q", s)
	}
	pf := &PureFunc{Name: strings.TrimSpace(s[:lp]), Src: s}
	for _, p := range splitTop(s[lp+1:rp], ',') {
		fs := strings.Fields(p)
		if len(fs) == 0 {
			continue
		}
		if len(fs) < 2 {
			return nil, fmt.Errorf("pure func param needs a sort: %q", p)
		}
		pf.Params = append(pf.Params, QVar{fs[0], strings.Join(fs[1:], " ")})
	}
	rest := strings.TrimSpace(s[rp+1:])
	if i := indexTopAssign(rest); i >= 0 {
		pf.Sort = strings.TrimSpace(rest[:i])
		e, err := parseSpec(strings.TrimSpace(rest[i+1:]))
		if err != nil {
			return nil, err
		}
		pf.Body = e
	} else {
		pf.Sort = rest
	}
	if pf.Sort == "" {
		return nil, fmt.Errorf("pure func needs a result sort: %q", s)
	}
	return pf, nil
}

// loadLibspecs reads every *.spec under dir (trusted contracts with fully-qualified keys).
func (c *Contracts) loadLibspecs(dir string) error {
	files, _ := filepath.Glob(filepath.Join(dir, "*.spec"))
	sort.Strings(files)
	for _, f := range files {
		if err := c.loadFile(f, "", true); err != nil {
			// an assumed-contract file that does not parse: its remaining entries are missing; functions that
			// need them fail their own obligations
			c.LoadErrors = append(c.LoadErrors, loadError{Pkg: "libspec", Err: err.Error()})
		}
	}
	return nil
}

type loadError struct {
	Pkg string
	Err string
}
