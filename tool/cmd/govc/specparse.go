package main

import (
	"fmt"
	"strings"
	"unicode"
)

// ---- spec expression AST ----

type SExpr interface{}

type SIdent struct{ Name string }
type SLit struct {
	Kind string // int, string, char, bool, nil
	Val  string
}
type SBin struct {
	Op   string
	L, R SExpr
}
type SUn struct {
	Op string
	X  SExpr
}
type SCall struct {
	Fn   SExpr
	Args []SExpr
}
type SSel struct {
	X   SExpr
	Sel string
}
type SIndex struct{ X, I SExpr }
type SSliceE struct{ X, Lo, Hi SExpr }
type QVar struct{ Name, Sort string }
type SQuant struct {
	Forall bool
	Vars   []QVar
	Body   SExpr
}
type SCond struct{ C, A, B SExpr }
type SLambda struct {
	Sort string // index sort name (as for quantified variables): "int" by default, "tp", "string", ...
	Var  string
	Body SExpr
}

// ---- lexer ----

type tok struct {
	k string // id, int, str, chr, op, eof
	v string
}

func lexSpec(s string) ([]tok, error) {
	var out []tok
	i := 0
	for i < len(s) {
		c := s[i]
		switch {
		case c == ' ' || c == '\t' || c == '\n':
			i++
		case unicode.IsLetter(rune(c)) || c == '_':
			j := i
			for j < len(s) && (unicode.IsLetter(rune(s[j])) || unicode.IsDigit(rune(s[j])) || s[j] == '_' || s[j] == '$') {
				j++
			}
			out = append(out, tok{"id", s[i:j]})
			i = j
		case c >= '0' && c <= '9':
			j := i
			if c == '0' && j+1 < len(s) && (s[j+1] == 'x' || s[j+1] == 'X') {
				j += 2
				for j < len(s) && strings.ContainsRune("0123456789abcdefABCDEF_", rune(s[j])) {
					j++
				}
			} else {
				for j < len(s) && (s[j] >= '0' && s[j] <= '9' || s[j] == '_') {
					j++
				}
			}
			out = append(out, tok{"int", strings.ReplaceAll(s[i:j], "_", "")})
			i = j
		case c == '"':
			j := i + 1
			for j < len(s) && s[j] != '"' {
				if s[j] == '\\' {
					j++
				}
				j++
			}
			if j >= len(s) {
				return nil, fmt.Errorf("unterminated string in %q", s)
			}
			out = append(out, tok{"str", s[i : j+1]})
			i = j + 1
		case c == '\'':
			j := i + 1
			for j < len(s) && s[j] != '\'' {
				if s[j] == '\\' {
					j++
				}
				j++
			}
			if j >= len(s) {
				return nil, fmt.Errorf("unterminated char in %q", s)
			}
			out = append(out, tok{"chr", s[i : j+1]})
			i = j + 1
		default:
			ops := []string{"<==>", "==>", "::", "&&", "||", "==", "!=", "<=", ">=", "<<", ">>", "&^"}
			matched := false
			for _, o := range ops {
				if strings.HasPrefix(s[i:], o) {
					out = append(out, tok{"op", o})
					i += len(o)
					matched = true
					break
				}
			}
			if !matched {
				if strings.ContainsRune("+-*/%()[]:,.?!<>&|^{}", rune(c)) {
					out = append(out, tok{"op", string(c)})
					i++
				} else {
					return nil, fmt.Errorf("bad character %q in spec %q", c, s)
				}
			}
		}
	}
	out = append(out, tok{"eof", ""})
	return out, nil
}

// ---- parser ----

type sparser struct {
	t []tok
	p int
	s string
}

func parseSpec(s string) (e SExpr, err error) {
	toks, err := lexSpec(s)
	if err != nil {
		return nil, err
	}
	p := &sparser{t: toks, s: s}
	defer func() {
		if r := recover(); r != nil {
			if pe, ok := r.(specErr); ok {
				err = fmt.Errorf("%s in spec %q", string(pe), s)
				return
			}
			panic(r)
		}
	}()
	e = p.expr()
	if p.cur().k != "eof" {
		p.fail("unexpected token %q", p.cur().v)
	}
	return e, nil
}

type specErr string

func (p *sparser) fail(f string, a ...interface{}) { panic(specErr(fmt.Sprintf(f, a...))) }
func (p *sparser) cur() tok                        { return p.t[p.p] }
func (p *sparser) isOp(o string) bool              { return p.t[p.p].k == "op" && p.t[p.p].v == o }
func (p *sparser) isID(o string) bool              { return p.t[p.p].k == "id" && p.t[p.p].v == o }
func (p *sparser) next() tok                       { t := p.t[p.p]; p.p++; return t }
func (p *sparser) expectOp(o string) {
	if !p.isOp(o) {
		p.fail("expected %q, found %q", o, p.cur().v)
	}
	p.p++
}

func (p *sparser) expr() SExpr {
	if p.isID("lambda") {
		p.next()
		if p.cur().k != "id" {
			p.fail("expected lambda variable")
		}
		name := p.next().v
		sort := "int"
		if p.cur().k == "id" {
			sort = p.next().v
		}
		p.expectOp("::")
		body := p.expr()
		return &SLambda{Var: name, Sort: sort, Body: body}
	}
	if p.isID("forall") || p.isID("exists") {
		fa := p.next().v == "forall"
		var vars []QVar
		for {
			if p.cur().k != "id" {
				p.fail("expected quantified variable")
			}
			name := p.next().v
			sort := "int"
			if p.cur().k == "id" {
				sort = p.next().v
			}
			vars = append(vars, QVar{name, sort})
			if p.isOp(",") {
				p.p++
				continue
			}
			break
		}
		p.expectOp("::")
		body := p.expr()
		return &SQuant{fa, vars, body}
	}
	return p.iff()
}

func (p *sparser) iff() SExpr {
	l := p.impl()
	for p.isOp("<==>") {
		p.p++
		r := p.impl()
		l = &SBin{"<==>", l, r}
	}
	return l
}

func (p *sparser) impl() SExpr {
	l := p.cond()
	if p.isOp("==>") {
		p.p++
		var r SExpr
		if p.isID("forall") || p.isID("exists") {
			r = p.expr()
		} else {
			r = p.impl()
		}
		return &SBin{"==>", l, r}
	}
	return l
}

func (p *sparser) cond() SExpr {
	c := p.or()
	if p.isOp("?") {
		p.p++
		a := p.cond()
		p.expectOp(":")
		b := p.cond()
		return &SCond{c, a, b}
	}
	return c
}

func (p *sparser) or() SExpr {
	l := p.and()
	for p.isOp("||") {
		p.p++
		r := p.and()
		l = &SBin{"||", l, r}
	}
	return l
}

func (p *sparser) and() SExpr {
	l := p.cmp()
	for p.isOp("&&") {
		p.p++
		var r SExpr
		if p.isID("forall") || p.isID("exists") {
			r = p.expr()
		} else {
			r = p.cmp()
		}
		l = &SBin{"&&", l, r}
	}
	return l
}

func (p *sparser) cmp() SExpr {
	l := p.add()
	for {
		if p.cur().k == "op" {
			switch p.cur().v {
			case "==", "!=", "<", "<=", ">", ">=":
				op := p.next().v
				r := p.add()
				l = &SBin{op, l, r}
				continue
			}
		}
		break
	}
	return l
}

func (p *sparser) add() SExpr {
	l := p.mul()
	for p.isOp("+") || p.isOp("-") || p.isOp("|") || p.isOp("^") {
		op := p.next().v
		r := p.mul()
		l = &SBin{op, l, r}
	}
	return l
}

func (p *sparser) mul() SExpr {
	l := p.unary()
	for p.isOp("*") || p.isOp("/") || p.isOp("%") || p.isOp("<<") || p.isOp(">>") || p.isOp("&") || p.isOp("&^") {
		op := p.next().v
		r := p.unary()
		l = &SBin{op, l, r}
	}
	return l
}

func (p *sparser) unary() SExpr {
	if p.isOp("!") || p.isOp("-") || p.isOp("^") {
		op := p.next().v
		x := p.unary()
		return &SUn{op, x}
	}
	return p.postfix()
}

func (p *sparser) postfix() SExpr {
	x := p.primary()
	for {
		switch {
		case p.isOp("."):
			p.p++
			if p.cur().k != "id" {
				p.fail("expected selector")
			}
			x = &SSel{x, p.next().v}
		case p.isOp("("):
			p.p++
			var args []SExpr
			for !p.isOp(")") {
				args = append(args, p.expr())
				if p.isOp(",") {
					p.p++
				} else {
					break
				}
			}
			p.expectOp(")")
			x = &SCall{x, args}
		case p.isOp("["):
			p.p++
			var lo, hi SExpr
			if !p.isOp(":") {
				lo = p.expr()
			}
			if p.isOp(":") {
				p.p++
				if !p.isOp("]") {
					hi = p.expr()
				}
				p.expectOp("]")
				x = &SSliceE{x, lo, hi}
			} else {
				p.expectOp("]")
				x = &SIndex{x, lo}
			}
		default:
			return x
		}
	}
}

func (p *sparser) primary() SExpr {
	t := p.cur()
	switch t.k {
	case "id":
		p.p++
		switch t.v {
		case "true", "false":
			return &SLit{"bool", t.v}
		case "nil":
			return &SLit{"nil", ""}
		}
		return &SIdent{t.v}
	case "int":
		p.p++
		return &SLit{"int", t.v}
	case "str":
		p.p++
		return &SLit{"string", t.v}
	case "chr":
		p.p++
		return &SLit{"char", t.v}
	case "op":
		if t.v == "(" {
			p.p++
			e := p.expr()
			p.expectOp(")")
			return e
		}
		if t.v == "*" { // deref
			p.p++
			x := p.unary()
			return &SUn{"*", x}
		}
	}
	p.fail("unexpected token %q", t.v)
	return nil
}

func specString(e SExpr) string {
	switch e := e.(type) {
	case *SIdent:
		return e.Name
	case *SLit:
		if e.Kind == "nil" {
			return "nil"
		}
		return e.Val
	case *SBin:
		return "(" + specString(e.L) + " " + e.Op + " " + specString(e.R) + ")"
	case *SUn:
		return e.Op + specString(e.X)
	case *SCall:
		var a []string
		for _, x := range e.Args {
			a = append(a, specString(x))
		}
		return specString(e.Fn) + "(" + strings.Join(a, ", ") + ")"
	case *SSel:
		return specString(e.X) + "." + e.Sel
	case *SIndex:
		return specString(e.X) + "[" + specString(e.I) + "]"
	case *SSliceE:
		lo, hi := "", ""
		if e.Lo != nil {
			lo = specString(e.Lo)
		}
		if e.Hi != nil {
			hi = specString(e.Hi)
		}
		return specString(e.X) + "[" + lo + ":" + hi + "]"
	case *SQuant:
		q := "exists"
		if e.Forall {
			q = "forall"
		}
		var vs []string
		for _, v := range e.Vars {
			vs = append(vs, v.Name+" "+v.Sort)
		}
		return "(" + q + " " + strings.Join(vs, ", ") + " :: " + specString(e.Body) + ")"
	case *SLambda:
		return "(lambda " + e.Var + " :: " + specString(e.Body) + ")"
	case *SCond:
		return "(" + specString(e.C) + " ? " + specString(e.A) + " : " + specString(e.B) + ")"
	}
	return "?"
}
