s=open('/tmp/s/heap.spec.tmpl').read()
QH='github.com/dapr/kit/events/queue.queueHeap'
QI='github.com/dapr/kit/events/queue.queueItem'
def sub_macro(s,name,fn):
    while True:
        i=s.find(name+'(')
        if i<0: return s
        j=i+len(name)+1; d=1
        while d>0:
            if s[j]=='(':d+=1
            elif s[j]==')':d-=1
            j+=1
        arg=s[i+len(name)+1:j-1]
        s=s[:i]+fn(arg)+s[j:]
s=sub_macro(s,'@OEL',lambda a:'old(region(@H))[old(@H.off) + %s]'%a)
s=sub_macro(s,'@NIDX',lambda a:'fieldmap(@H[0].index)[%s]'%a)
s=sub_macro(s,'@OIDX',lambda a:'old(fieldmap(@H[0].index))[%s]'%a)
s=s.replace('@H','deref(h, "%s")'%QH).replace('@X','unbox(x, "*%s")'%QI).replace('@QH',QH).replace('@QI',QI)
open('/verif/libspec/heap.spec','w').write(s)
